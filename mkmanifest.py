#!/usr/bin/env python3
# Generates MANIFEST.json from the table below (kept in one place so it stays consistent).
import json
claimed = {
 "C01": ("sequential TTL model under the virtual clock: seeded call sequences x clock jumps (to e-1/e/e+1), janitor ticks between calls", "3.1, 4 C01"),
 "C02": ("seeded scheduler over 2-4 tasks + janitor; histories checked with porcupine against the TTL-map model (frozen clock, or a clock that ticks inside the phase with the timed model of DESIGN 10)", "3.2, 4 C02"),
 "C03": ("seeded scheduler over 2-4 tasks; Map histories across grow/shrink/Clear checked with porcupine against map[string]interface{}", "3.2, 4 C03"),
 "C04": ("seeded scheduler; MapOf histories for int/string/struct/any keys, default and adversarial hashers, checked with porcupine", "3.2, 4 C04"),
 "C05": ("seeded scheduler; racers and increment chains with direct exactly-once / one-winner / no-lost-update assertions", "4 C05"),
 "C06": ("evicted-callback ledger (rules R1-R7) over sequential runs with exact Count deltas and concurrent runs with overlapping removers", "3.4, 4 C06"),
 "C07": ("traversal oracle: sequential equality with the model, concurrent per-key rules and pseudo-loads in the porcupine history", "3.3, 4 C07"),
 "C08": ("Size/Count compared with Range visits and keys found at every quiescent point of concurrent and sequential runs; nothing expired survives a completed DeleteExpired, nothing stored before survives a completed Clear", "3.5, 4 C08"),
 "C09": ("exact expiry instants under the virtual clock for boundary and random int64 TTLs and all constructor variants; concurrent phases in which the default TTL changes while entries are stored with it", "4 C09"),
 "C10": ("builtin-map mirror over a catalogue of key types under simulator-controlled seeds and forced hash collisions; hasher contract", "4 C10"),
 "C11": ("same call sequence into a builtin map and two sibling instances that differ in presize, seed stream, hash mode, table knob, prior Clear", "4 C11"),
 "C12": ("twin worlds: Cache vs CacheOf[string,any] and Map vs MapOf[string,any] driven by one generated sequence under one virtual clock", "4 C12"),
 "C13": ("scheduler deadlock detection, two livelock proofs and a per-call step bound over writers/Clear/resize/re-entrant and re-arming callbacks, also under a running clock", "2.2, 4 C13"),
 "C14": ("Go race detector inside the simulator: baton hand-offs hidden from TSan so only the code's own happens-before edges count; payload checksums; two containers; drop + GC with ticking janitors", "4 C14"),
 "C15": ("(a) janitor-only cleanup under the virtual clock with tick coalescing; (b) drop + real GC: janitor tasks end, payloads are collected", "4 C15"),
 "C16": ("stall fault: a writer/resizer is frozen indefinitely; readers must return without joining a wait set within a linear bound of own steps", "4 C16"),
}
import os, sys
built = sys.argv[1:] if len(sys.argv) > 1 else sorted(claimed)
checks = []
na = []
for pid in sorted(claimed):
    text, ref = claimed[pid]
    if pid not in built:
        na.append({"property_id": pid, "reason": "check not built yet in this commit (planned: deterministic simulation, DESIGN.md section 4 %s)" % pid})
        continue
    checks.append({
        "property_id": pid,
        "quick_cmd": "./check %s quick" % pid,
        "thorough_cmd": "./check %s thorough" % pid,
        "evidence_file": "/verif/evidence/%s.json" % pid,
        "replay_cmd_template": "./check replay {path}",
        "engine": "cachesim",
        "level_claimed": {"category": "exploration", "text": "Seeded search over generated programs x schedules x faults in a deterministic simulator that runs the real code of /repo's working tree; a clean batch is evidence, not proof. " + text, "design_ref": "DESIGN.md section " + ref},
        "level_note": "Trusted base: the go/ast rewriter and shim packages (sync, sync/atomic, runtime, time) preserve the code's semantics apart from scheduling and time; interleavings at synchronisation-operation granularity under sequential consistency; reference models of DESIGN.md Appendix A; porcupine v1.3.0 where used." + (" C15(b) depends on the real Go GC and finalizer goroutine (not step-exact)." if pid == "C15" else "") + (" C10 has no schedule or clock dimension: the simulator contributes only the seed/collision seam." if pid == "C10" else ""),
        "technique": "deterministic simulation with fault injection: " + text,
    })
m = {
 "version": 1,
 "setup_cmd": "./setup.sh",
 "hooks": {"guard": "verifsim", "enable": "no source hooks: every check copies /repo's working tree to a scratch directory and instruments the copy with /verif/bin/rewrite (imports of sync, sync/atomic, runtime, time -> shim packages; go/select -> simulator primitives)", "baseline_off_cmd": "cd /repo && GOFLAGS=-mod=mod GOPROXY=off go test -vet=off -count=1 -timeout 25m ./...", "source_commits": [], "add_only": True},
 "engines": [{"name": "cachesim", "path": "/verif/sim", "serves_properties": [c["property_id"] for c in checks], "kind_free_text": "deterministic simulator: seeded scheduler over real goroutines parked at intercepted synchronisation points, virtual clock and tickers, deterministic/colliding hash seam, stall/delay/clock-jump faults, porcupine and model oracles, replay + delta-debugging shrinker"}],
 "checks": checks,
 "not_applicable": na,
 "notes": "fix: commits in /repo and their replay files are listed in /verif/known_findings.json (all fixed; nothing suppressed). VERIF_SEED seeds every run; VERIF_BUDGET_S sets the thorough wall-clock budget per property (default 900).",
}
json.dump(m, open("/verif/MANIFEST.json", "w"), indent=1)
print("claimed:", [c["property_id"] for c in checks])
