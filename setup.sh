#!/bin/bash
# Builds the rewriter and warms the Go build cache. Offline.
export GOFLAGS=-mod=mod GOPROXY=off GOSUMDB=off GOTOOLCHAIN=local
set -e
cd /verif/sim/rewrite && mkdir -p /verif/bin && go build -o /verif/bin/rewrite .
S=$(mktemp -d /tmp/verif-setup-XXXXXX)
trap 'rm -rf "$S"' EXIT
/verif/sim/build.sh "$S" >/dev/null
/verif/sim/build.sh "$S" race >/dev/null 2>&1 || true
echo setup ok
