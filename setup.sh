#!/bin/bash
# Builds the rewriter and warms the Go build cache. Offline.
export GOFLAGS=-mod=mod GOPROXY=off GOSUMDB=off GOTOOLCHAIN=local
set -e
ROOT="$(cd "$(dirname "$0")" && pwd)"
export VERIF_ROOT="$ROOT"
cd "$ROOT/sim/rewrite" && mkdir -p "$ROOT/bin" && go build -o "$ROOT/bin/rewrite" .
S=$(mktemp -d /tmp/verif-setup-XXXXXX)
trap 'rm -rf "$S"' EXIT
"$ROOT/sim/build.sh" "$S" >/dev/null
"$ROOT/sim/build.sh" "$S" race >/dev/null 2>&1 || true
echo setup ok
