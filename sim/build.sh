#!/bin/bash
# build.sh <scratch-dir> [race]  : copy /repo's working tree, instrument, build the driver
set -e
export GOFLAGS=-mod=mod GOPROXY=off GOSUMDB=off GOTOOLCHAIN=local
S="$1"
R="${VERIF_ROOT:-/verif}"
mkdir -p "$S"
rm -rf "$S/repo" "$S/drv"
"$R/bin/rewrite" -src "${VERIF_REPO:-/repo}" -dst "$S/repo" -overlay "$R/sim/overlay" ${VERIF_NOKNOB:+-noknob}
cp -r "$R/sim/drv" "$S/drv"
cd "$S/drv"
if [ "$2" = race ]; then
  go build -trimpath -race -o "$S/simdrv-race" .
else
  go build -trimpath -o "$S/simdrv" .
fi
