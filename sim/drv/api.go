package main

import (
	"fmt"
	"strconv"
	"time"

	cache "github.com/fufuok/cache"
	"github.com/fufuok/cache/verifsim/bridge"
)

// The driver talks to all containers through two small interfaces whose keys
// are key indices (int) and whose values are value ids (int64; 0 = the zero /
// nil value). Adapters translate to the real key and value types.

type MapAPI interface {
	Load(k int) (int64, bool)
	Store(k int, v int64)
	LoadOrStore(k int, v int64) (int64, bool)
	LoadAndStore(k int, v int64) (int64, bool)
	LoadOrCompute(k int, f func() int64) (int64, bool)
	Compute(k int, f func(old int64, loaded bool) (int64, bool)) (int64, bool)
	LoadAndDelete(k int) (int64, bool)
	Delete(k int)
	Range(f func(k int, v int64) bool)
	Clear()
	Size() int
	Raw() interface{}
}

type CacheAPI interface {
	Set(k int, v int64, d int64)
	SetDefault(k int, v int64)
	SetForever(k int, v int64)
	Get(k int) (int64, bool)
	GetWithExpiration(k int) (int64, int64, bool) // expiration as UnixNano, 0 for the zero Time
	GetWithTTL(k int) (int64, int64, bool)
	GetOrSet(k int, v int64, d int64) (int64, bool)
	GetAndSet(k int, v int64, d int64) (int64, bool)
	GetAndRefresh(k int, d int64) (int64, bool)
	GetOrCompute(k int, f func() int64, d int64) (int64, bool)
	Compute(k int, f func(old int64, loaded bool) (int64, bool), d int64) (int64, bool)
	GetAndDelete(k int) (int64, bool)
	Delete(k int)
	DeleteExpired()
	Range(f func(k int, v int64) bool)
	RangeNil()
	Items() map[int]int64
	Clear()
	Count() int
	DefaultExpiration() int64
	SetDefaultExpiration(d int64)
	SetEvictedCallback(f func(k int, v int64))
	HasCallback() bool
}

// ---------------------------------------------------------------------------
// codecs

type SKey struct {
	A int8
	B int64
	S string
}

type keyCodec[K comparable] struct {
	enc func(int) K
	dec func(K) int
}

type valCodec[V any] struct {
	enc func(int64) V
	dec func(V) int64
}

// Payload is what pointer-valued containers store (C14: safe publication).
type Payload struct {
	ID  int64
	A   int64
	B   int64
	Sum int64
}

func newPayload(id int64) *Payload {
	p := &Payload{}
	p.ID = id
	p.A = id * 3
	p.B = id ^ 0x5555
	p.Sum = p.ID + p.A + p.B
	return p
}

var payloadBad int64 // count of payloads seen with a broken checksum

func readPayload(p *Payload) int64 {
	if p.ID+p.A+p.B != p.Sum {
		payloadBad++
	}
	return p.ID
}

func strKey(i int) string {
	if i == emptyStringKey {
		return ""
	}
	return "k" + strconv.Itoa(i)
}

const emptyStringKey = 9999

func strKeyDec(s string) int {
	if s == "" {
		return emptyStringKey
	}
	n, err := strconv.Atoi(s[1:])
	if err != nil {
		panic("driver: foreign key " + s)
	}
	return n
}

var stringKeys = keyCodec[string]{strKey, strKeyDec}
var intKeys = keyCodec[int]{func(i int) int { return i*7 - 3 }, func(k int) int { return (k + 3) / 7 }}
var structKeys = keyCodec[SKey]{
	func(i int) SKey { return SKey{int8(i % 5), int64(i), "s" + strconv.Itoa(i/3)} },
	func(k SKey) int { return int(k.B) },
}
var anyKeys = keyCodec[any]{
	func(i int) any {
		switch i % 3 {
		case 0:
			return i
		case 1:
			return strKey(i)
		}
		return structKeys.enc(i)
	},
	func(k any) int {
		switch x := k.(type) {
		case int:
			return x
		case string:
			return strKeyDec(x)
		case SKey:
			return structKeys.dec(x)
		}
		panic(fmt.Sprintf("driver: foreign key %v", k))
	},
}

var payloadMode bool // values are *Payload instead of int64 (set once per process)

var anyVals = valCodec[any]{
	func(id int64) any {
		if id == 0 {
			return nil
		}
		if payloadMode {
			return newPayload(id)
		}
		return id
	},
	func(v any) int64 {
		switch x := v.(type) {
		case nil:
			return 0
		case int64:
			return x
		case *Payload:
			return readPayload(x)
		}
		panic(fmt.Sprintf("driver: foreign value %v (%T)", v, v))
	},
}
var intVals = valCodec[int64]{func(id int64) int64 { return id }, func(v int64) int64 { return v }}
var ptrVals = valCodec[*Payload]{
	func(id int64) *Payload {
		if id == 0 {
			return nil
		}
		return newPayload(id)
	},
	func(p *Payload) int64 {
		if p == nil {
			return 0
		}
		return readPayload(p)
	},
}

// ---------------------------------------------------------------------------
// Map adapters

type mapAd struct{ m cache.Map }

func (a mapAd) Raw() interface{} { return a.m }
func (a mapAd) Load(k int) (int64, bool) {
	v, ok := a.m.Load(strKey(k))
	return anyVals.dec(v), ok
}
func (a mapAd) Store(k int, v int64) { a.m.Store(strKey(k), anyVals.enc(v)) }
func (a mapAd) LoadOrStore(k int, v int64) (int64, bool) {
	r, ok := a.m.LoadOrStore(strKey(k), anyVals.enc(v))
	return anyVals.dec(r), ok
}
func (a mapAd) LoadAndStore(k int, v int64) (int64, bool) {
	r, ok := a.m.LoadAndStore(strKey(k), anyVals.enc(v))
	return anyVals.dec(r), ok
}
func (a mapAd) LoadOrCompute(k int, f func() int64) (int64, bool) {
	r, ok := a.m.LoadOrCompute(strKey(k), func() interface{} { return anyVals.enc(f()) })
	return anyVals.dec(r), ok
}
func (a mapAd) Compute(k int, f func(int64, bool) (int64, bool)) (int64, bool) {
	r, ok := a.m.Compute(strKey(k), func(o interface{}, l bool) (interface{}, bool) {
		n, d := f(anyVals.dec(o), l)
		return anyVals.enc(n), d
	})
	return anyVals.dec(r), ok
}
func (a mapAd) LoadAndDelete(k int) (int64, bool) {
	r, ok := a.m.LoadAndDelete(strKey(k))
	return anyVals.dec(r), ok
}
func (a mapAd) Delete(k int) { a.m.Delete(strKey(k)) }
func (a mapAd) Range(f func(int, int64) bool) {
	a.m.Range(func(k string, v interface{}) bool { return f(strKeyDec(k), anyVals.dec(v)) })
}
func (a mapAd) Clear()    { a.m.Clear() }
func (a mapAd) Size() int { return a.m.Size() }

type mapOfAd[K comparable, V any] struct {
	m  cache.MapOf[K, V]
	kc keyCodec[K]
	vc valCodec[V]
}

func (a mapOfAd[K, V]) Raw() interface{} { return a.m }
func (a mapOfAd[K, V]) Load(k int) (int64, bool) {
	v, ok := a.m.Load(a.kc.enc(k))
	return a.vc.dec(v), ok
}
func (a mapOfAd[K, V]) Store(k int, v int64) { a.m.Store(a.kc.enc(k), a.vc.enc(v)) }
func (a mapOfAd[K, V]) LoadOrStore(k int, v int64) (int64, bool) {
	r, ok := a.m.LoadOrStore(a.kc.enc(k), a.vc.enc(v))
	return a.vc.dec(r), ok
}
func (a mapOfAd[K, V]) LoadAndStore(k int, v int64) (int64, bool) {
	r, ok := a.m.LoadAndStore(a.kc.enc(k), a.vc.enc(v))
	return a.vc.dec(r), ok
}
func (a mapOfAd[K, V]) LoadOrCompute(k int, f func() int64) (int64, bool) {
	r, ok := a.m.LoadOrCompute(a.kc.enc(k), func() V { return a.vc.enc(f()) })
	return a.vc.dec(r), ok
}
func (a mapOfAd[K, V]) Compute(k int, f func(int64, bool) (int64, bool)) (int64, bool) {
	r, ok := a.m.Compute(a.kc.enc(k), func(o V, l bool) (V, bool) {
		n, d := f(a.vc.dec(o), l)
		return a.vc.enc(n), d
	})
	return a.vc.dec(r), ok
}
func (a mapOfAd[K, V]) LoadAndDelete(k int) (int64, bool) {
	r, ok := a.m.LoadAndDelete(a.kc.enc(k))
	return a.vc.dec(r), ok
}
func (a mapOfAd[K, V]) Delete(k int) { a.m.Delete(a.kc.enc(k)) }
func (a mapOfAd[K, V]) Range(f func(int, int64) bool) {
	a.m.Range(func(k K, v V) bool { return f(a.kc.dec(k), a.vc.dec(v)) })
}
func (a mapOfAd[K, V]) Clear()    { a.m.Clear() }
func (a mapOfAd[K, V]) Size() int { return a.m.Size() }

// hashers for NewMapOfWithHasher (adversarial ones collide in h1 and h2)
func hasherFor[K comparable](kind string, kc keyCodec[K]) func(K, uint64) uint64 {
	switch kind {
	case "const":
		return func(K, uint64) uint64 { return 0x1234567 }
	case "mod2":
		return func(k K, seed uint64) uint64 { return uint64(kc.dec(k)&1) * 0x9E3779B97F4A7C15 }
	case "identity":
		return func(k K, seed uint64) uint64 { return uint64(kc.dec(k)) }
	case "lowbits":
		// distinct h1, equal 7-bit h2
		return func(k K, seed uint64) uint64 { return uint64(kc.dec(k))<<7 | 0x55 }
	case "seeded":
		return func(k K, seed uint64) uint64 { return mix64(uint64(kc.dec(k))*0x9E3779B97F4A7C15 ^ seed) }
	}
	panic("driver: unknown hasher " + kind)
}

func mix64(x uint64) uint64 {
	x ^= x >> 30
	x *= 0xbf58476d1ce4e5b9
	x ^= x >> 27
	x *= 0x94d049bb133111eb
	x ^= x >> 31
	return x
}

func newMapOf[K comparable, V any](kc keyCodec[K], vc valCodec[V], hasher string, presize int, usePresized bool) MapAPI {
	var m cache.MapOf[K, V]
	switch {
	case hasher == "growonly":
		m = bridge.NewMapOfGrowOnly[K, V](presize)
	case hasher != "" && hasher != "default":
		m = bridge.NewMapOfWithHasher[K, V](hasherFor(hasher, kc), presize)
	case usePresized:
		m = cache.NewMapOfPresized[K, V](presize)
	default:
		m = cache.NewMapOf[K, V]()
	}
	return mapOfAd[K, V]{m, kc, vc}
}

// MapKinds lists the container kinds of the map family.
var MapKinds = []string{"map", "mapof_string_any", "mapof_int_int64", "mapof_struct_int64", "mapof_any_int64", "mapof_int_ptr"}

// NewMapKind constructs a map container. presize < 0 means "use the
// constructor without a size hint".
func NewMapKind(kind, hasher string, presize int, usePresized bool) MapAPI {
	switch kind {
	case "map":
		if hasher == "growonly" {
			return mapAd{bridge.NewMapGrowOnly(presize)}
		}
		if usePresized {
			return mapAd{cache.NewMapPresized(presize)}
		}
		return mapAd{cache.NewMap()}
	case "mapof_string_any":
		return newMapOf(stringKeys, anyVals, hasher, presize, usePresized)
	case "mapof_int_int64":
		return newMapOf(intKeys, intVals, hasher, presize, usePresized)
	case "mapof_struct_int64":
		return newMapOf(structKeys, intVals, hasher, presize, usePresized)
	case "mapof_any_int64":
		return newMapOf(anyKeys, intVals, hasher, presize, usePresized)
	case "mapof_int_ptr":
		return newMapOf(intKeys, ptrVals, hasher, presize, usePresized)
	}
	panic("driver: unknown map kind " + kind)
}

// ---------------------------------------------------------------------------
// Cache adapters

func expNano(t time.Time) int64 {
	if t.IsZero() {
		return 0
	}
	return t.UnixNano()
}

type cacheAd struct {
	c     cache.Cache
	hasCB bool
}

func (a *cacheAd) Set(k int, v int64, d int64) { a.c.Set(strKey(k), anyVals.enc(v), time.Duration(d)) }
func (a *cacheAd) SetDefault(k int, v int64)   { a.c.SetDefault(strKey(k), anyVals.enc(v)) }
func (a *cacheAd) SetForever(k int, v int64)   { a.c.SetForever(strKey(k), anyVals.enc(v)) }
func (a *cacheAd) Get(k int) (int64, bool) {
	v, ok := a.c.Get(strKey(k))
	return anyVals.dec(v), ok
}
func (a *cacheAd) GetWithExpiration(k int) (int64, int64, bool) {
	v, t, ok := a.c.GetWithExpiration(strKey(k))
	return anyVals.dec(v), expNano(t), ok
}
func (a *cacheAd) GetWithTTL(k int) (int64, int64, bool) {
	v, t, ok := a.c.GetWithTTL(strKey(k))
	return anyVals.dec(v), int64(t), ok
}
func (a *cacheAd) GetOrSet(k int, v int64, d int64) (int64, bool) {
	r, ok := a.c.GetOrSet(strKey(k), anyVals.enc(v), time.Duration(d))
	return anyVals.dec(r), ok
}
func (a *cacheAd) GetAndSet(k int, v int64, d int64) (int64, bool) {
	r, ok := a.c.GetAndSet(strKey(k), anyVals.enc(v), time.Duration(d))
	return anyVals.dec(r), ok
}
func (a *cacheAd) GetAndRefresh(k int, d int64) (int64, bool) {
	r, ok := a.c.GetAndRefresh(strKey(k), time.Duration(d))
	return anyVals.dec(r), ok
}
func (a *cacheAd) GetOrCompute(k int, f func() int64, d int64) (int64, bool) {
	r, ok := a.c.GetOrCompute(strKey(k), func() interface{} { return anyVals.enc(f()) }, time.Duration(d))
	return anyVals.dec(r), ok
}
func (a *cacheAd) Compute(k int, f func(int64, bool) (int64, bool), d int64) (int64, bool) {
	r, ok := a.c.Compute(strKey(k), func(o interface{}, l bool) (interface{}, bool) {
		n, del := f(anyVals.dec(o), l)
		return anyVals.enc(n), del
	}, time.Duration(d))
	return anyVals.dec(r), ok
}
func (a *cacheAd) GetAndDelete(k int) (int64, bool) {
	r, ok := a.c.GetAndDelete(strKey(k))
	return anyVals.dec(r), ok
}
func (a *cacheAd) Delete(k int)   { a.c.Delete(strKey(k)) }
func (a *cacheAd) DeleteExpired() { a.c.DeleteExpired() }
func (a *cacheAd) Range(f func(int, int64) bool) {
	a.c.Range(func(k string, v interface{}) bool { return f(strKeyDec(k), anyVals.dec(v)) })
}
func (a *cacheAd) RangeNil() { a.c.Range(nil) }
func (a *cacheAd) Items() map[int]int64 {
	r := map[int]int64{}
	for k, v := range a.c.Items() {
		r[strKeyDec(k)] = anyVals.dec(v)
	}
	return r
}
func (a *cacheAd) Clear()                       { a.c.Clear() }
func (a *cacheAd) Count() int                   { return a.c.Count() }
func (a *cacheAd) DefaultExpiration() int64     { return int64(a.c.DefaultExpiration()) }
func (a *cacheAd) SetDefaultExpiration(d int64) { a.c.SetDefaultExpiration(time.Duration(d)) }
func (a *cacheAd) SetEvictedCallback(f func(int, int64)) {
	if f == nil {
		a.c.SetEvictedCallback(nil)
		return
	}
	a.c.SetEvictedCallback(func(k string, v interface{}) { f(strKeyDec(k), anyVals.dec(v)) })
}
func (a *cacheAd) HasCallback() bool { return a.c.EvictedCallback() != nil }

type cacheOfAd[K comparable, V any] struct {
	c  cache.CacheOf[K, V]
	kc keyCodec[K]
	vc valCodec[V]
}

func (a *cacheOfAd[K, V]) Set(k int, v int64, d int64) {
	a.c.Set(a.kc.enc(k), a.vc.enc(v), time.Duration(d))
}
func (a *cacheOfAd[K, V]) SetDefault(k int, v int64) { a.c.SetDefault(a.kc.enc(k), a.vc.enc(v)) }
func (a *cacheOfAd[K, V]) SetForever(k int, v int64) { a.c.SetForever(a.kc.enc(k), a.vc.enc(v)) }
func (a *cacheOfAd[K, V]) Get(k int) (int64, bool) {
	v, ok := a.c.Get(a.kc.enc(k))
	return a.vc.dec(v), ok
}
func (a *cacheOfAd[K, V]) GetWithExpiration(k int) (int64, int64, bool) {
	v, t, ok := a.c.GetWithExpiration(a.kc.enc(k))
	return a.vc.dec(v), expNano(t), ok
}
func (a *cacheOfAd[K, V]) GetWithTTL(k int) (int64, int64, bool) {
	v, t, ok := a.c.GetWithTTL(a.kc.enc(k))
	return a.vc.dec(v), int64(t), ok
}
func (a *cacheOfAd[K, V]) GetOrSet(k int, v int64, d int64) (int64, bool) {
	r, ok := a.c.GetOrSet(a.kc.enc(k), a.vc.enc(v), time.Duration(d))
	return a.vc.dec(r), ok
}
func (a *cacheOfAd[K, V]) GetAndSet(k int, v int64, d int64) (int64, bool) {
	r, ok := a.c.GetAndSet(a.kc.enc(k), a.vc.enc(v), time.Duration(d))
	return a.vc.dec(r), ok
}
func (a *cacheOfAd[K, V]) GetAndRefresh(k int, d int64) (int64, bool) {
	r, ok := a.c.GetAndRefresh(a.kc.enc(k), time.Duration(d))
	return a.vc.dec(r), ok
}
func (a *cacheOfAd[K, V]) GetOrCompute(k int, f func() int64, d int64) (int64, bool) {
	r, ok := a.c.GetOrCompute(a.kc.enc(k), func() V { return a.vc.enc(f()) }, time.Duration(d))
	return a.vc.dec(r), ok
}
func (a *cacheOfAd[K, V]) Compute(k int, f func(int64, bool) (int64, bool), d int64) (int64, bool) {
	r, ok := a.c.Compute(a.kc.enc(k), func(o V, l bool) (V, bool) {
		n, del := f(a.vc.dec(o), l)
		return a.vc.enc(n), del
	}, time.Duration(d))
	return a.vc.dec(r), ok
}
func (a *cacheOfAd[K, V]) GetAndDelete(k int) (int64, bool) {
	r, ok := a.c.GetAndDelete(a.kc.enc(k))
	return a.vc.dec(r), ok
}
func (a *cacheOfAd[K, V]) Delete(k int)   { a.c.Delete(a.kc.enc(k)) }
func (a *cacheOfAd[K, V]) DeleteExpired() { a.c.DeleteExpired() }
func (a *cacheOfAd[K, V]) Range(f func(int, int64) bool) {
	a.c.Range(func(k K, v V) bool { return f(a.kc.dec(k), a.vc.dec(v)) })
}
func (a *cacheOfAd[K, V]) RangeNil() { a.c.Range(nil) }
func (a *cacheOfAd[K, V]) Items() map[int]int64 {
	r := map[int]int64{}
	for k, v := range a.c.Items() {
		r[a.kc.dec(k)] = a.vc.dec(v)
	}
	return r
}
func (a *cacheOfAd[K, V]) Clear()                       { a.c.Clear() }
func (a *cacheOfAd[K, V]) Count() int                   { return a.c.Count() }
func (a *cacheOfAd[K, V]) DefaultExpiration() int64     { return int64(a.c.DefaultExpiration()) }
func (a *cacheOfAd[K, V]) SetDefaultExpiration(d int64) { a.c.SetDefaultExpiration(time.Duration(d)) }
func (a *cacheOfAd[K, V]) SetEvictedCallback(f func(int, int64)) {
	if f == nil {
		a.c.SetEvictedCallback(nil)
		return
	}
	a.c.SetEvictedCallback(func(k K, v V) { f(a.kc.dec(k), a.vc.dec(v)) })
}
func (a *cacheOfAd[K, V]) HasCallback() bool { return a.c.EvictedCallback() != nil }

// CacheCtor describes how a cache is constructed.
type CacheCtor struct {
	Kind     string `json:"kind"` // cache | cacheof_string_any | cacheof_int_int64 | cacheof_struct_int64 | cacheof_int_ptr
	Ctor     string `json:"ctor"` // "new" (options) | "default" (NewDefault) | "plain" (New() without options)
	DefTTL   int64  `json:"def_ttl"`
	Interval int64  `json:"interval"`
	MinCap   int    `json:"min_cap"`
	SetDef   bool   `json:"set_def"` // pass WithDefaultExpiration
	SetInt   bool   `json:"set_int"` // pass WithCleanupInterval
	SetCap   bool   `json:"set_cap"`
	CB       bool   `json:"cb"` // install callback at construction
	// Twice: the default-expiration option is given twice (DefTTL2 first, then
	// DefTTL): the last one wins
	Twice   bool  `json:"twice,omitempty"`
	DefTTL2 int64 `json:"def_ttl2,omitempty"`
}

var CacheKinds = []string{"cache", "cacheof_string_any", "cacheof_int_int64", "cacheof_struct_int64"}

func newCacheOf[K comparable, V any](kc keyCodec[K], vc valCodec[V], ct CacheCtor, cb func(int, int64)) CacheAPI {
	var ecb cache.EvictedCallbackOf[K, V]
	if ct.CB && cb != nil {
		ecb = func(k K, v V) { cb(kc.dec(k), vc.dec(v)) }
	}
	var c cache.CacheOf[K, V]
	switch ct.Ctor {
	case "default":
		if ct.CB {
			c = cache.NewOfDefault[K, V](time.Duration(ct.DefTTL), time.Duration(ct.Interval), ecb)
		} else {
			c = cache.NewOfDefault[K, V](time.Duration(ct.DefTTL), time.Duration(ct.Interval))
		}
	case "plain":
		c = cache.NewOf[K, V]()
	default:
		var opts []cache.OptionOf[K, V]
		if ct.SetDef && ct.Twice {
			opts = append(opts, cache.WithDefaultExpirationOf[K, V](time.Duration(ct.DefTTL2)))
		}
		if ct.SetDef {
			opts = append(opts, cache.WithDefaultExpirationOf[K, V](time.Duration(ct.DefTTL)))
		}
		if ct.SetInt {
			opts = append(opts, cache.WithCleanupIntervalOf[K, V](time.Duration(ct.Interval)))
		}
		if ct.SetCap {
			opts = append(opts, cache.WithMinCapacityOf[K, V](ct.MinCap))
		}
		if ct.CB {
			opts = append(opts, cache.WithEvictedCallbackOf[K, V](ecb))
		}
		c = cache.NewOf[K, V](opts...)
	}
	return &cacheOfAd[K, V]{c, kc, vc}
}

// NewCacheKind constructs a cache. cb receives evictions (if ct.CB).
func NewCacheKind(ct CacheCtor, cb func(int, int64)) CacheAPI {
	switch ct.Kind {
	case "cache":
		var ecb cache.EvictedCallback
		if ct.CB && cb != nil {
			ecb = func(k string, v interface{}) { cb(strKeyDec(k), anyVals.dec(v)) }
		}
		var c cache.Cache
		switch ct.Ctor {
		case "default":
			if ct.CB {
				c = cache.NewDefault(time.Duration(ct.DefTTL), time.Duration(ct.Interval), ecb)
			} else {
				c = cache.NewDefault(time.Duration(ct.DefTTL), time.Duration(ct.Interval))
			}
		case "plain":
			c = cache.New()
		default:
			var opts []cache.Option
			if ct.SetDef && ct.Twice {
				opts = append(opts, cache.WithDefaultExpiration(time.Duration(ct.DefTTL2)))
			}
			if ct.SetDef {
				opts = append(opts, cache.WithDefaultExpiration(time.Duration(ct.DefTTL)))
			}
			if ct.SetInt {
				opts = append(opts, cache.WithCleanupInterval(time.Duration(ct.Interval)))
			}
			if ct.SetCap {
				opts = append(opts, cache.WithMinCapacity(ct.MinCap))
			}
			if ct.CB {
				opts = append(opts, cache.WithEvictedCallback(ecb))
			}
			c = cache.New(opts...)
		}
		return &cacheAd{c: c}
	case "cacheof_string_any":
		return newCacheOf(stringKeys, anyVals, ct, cb)
	case "cacheof_int_int64":
		return newCacheOf(intKeys, intVals, ct, cb)
	case "cacheof_struct_int64":
		return newCacheOf(structKeys, intVals, ct, cb)
	case "cacheof_int_ptr":
		return newCacheOf(intKeys, ptrVals, ct, cb)
	}
	panic("driver: unknown cache kind " + ct.Kind)
}

// EffectiveCtor returns the default TTL and interval the constructor variant
// really passes to the library (the "plain" and partially-optioned variants
// use the library's documented defaults: NoExpiration and 10 s).
func (ct CacheCtor) Effective() (defTTL, interval int64) {
	switch ct.Ctor {
	case "default":
		return ct.DefTTL, ct.Interval
	case "plain":
		return int64(cache.NoExpiration), int64(cache.DefaultCleanupInterval)
	}
	defTTL, interval = int64(cache.NoExpiration), int64(cache.DefaultCleanupInterval)
	if ct.SetDef {
		defTTL = ct.DefTTL
	}
	if ct.SetInt {
		interval = ct.Interval
	}
	return
}
