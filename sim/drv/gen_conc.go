package main

import (
	"time"

	"github.com/fufuok/cache/verifsim/simrt"
)

// Generators for the concurrent scenarios. Everything is drawn from one RNG
// derived from the run seed; sub-streams (program, schedule, table seeds) are
// separate so that shrinking one does not shift the others.

type genCtx struct {
	r       *simrt.RNG
	nextVal int64
	tier    string
	nilP    float64 // share of stored values that are the zero / nil value
}

func (g *genCtx) val() int64 {
	if g.nilP > 0 && g.r.Bool(g.nilP) {
		return 0 // the zero value: a nil interface / nil pointer for the any- and pointer-valued kinds
	}
	g.nextVal++
	return g.nextVal
}

func (g *genCtx) pick(ws []int) int {
	t := 0
	for _, w := range ws {
		t += w
	}
	x := g.r.Intn(t)
	for i, w := range ws {
		if x < w {
			return i
		}
		x -= w
	}
	return len(ws) - 1
}

func (g *genCtx) strategy(horizon int) simrt.StrategyConfig {
	switch g.pick([]int{25, 10, 15, 15, 25, 10}) {
	case 0:
		return simrt.StrategyConfig{Kind: "random"}
	case 1:
		return simrt.StrategyConfig{Kind: "sticky", Stick: 0.5}
	case 2:
		return simrt.StrategyConfig{Kind: "sticky", Stick: 0.9}
	case 3:
		return simrt.StrategyConfig{Kind: "sticky", Stick: 0.99}
	case 4:
		return simrt.StrategyConfig{Kind: "pct", Depth: 1 + g.r.Intn(3), Horizon: horizon}
	}
	return simrt.StrategyConfig{Kind: "rr", Quantum: 1 + g.r.Intn(4)}
}

func (g *genCtx) hashMode(sc *ConcScenario) {
	switch g.pick([]int{40, 25, 20, 15}) {
	case 3:
		// half of the keys collide into n values (long chains, early grows),
		// the other half spread out (empty root buckets next to full chains)
		sc.HashMode, sc.CollideN = "split", 1+g.r.Intn(2)
	case 0:
		sc.HashMode = "det"
	case 1:
		sc.HashMode, sc.CollideN = "collide", 1
	case 2:
		sc.HashMode, sc.CollideN = "collide", 2+g.r.Intn(2)
	}
}

var mapOfKindsNoAny = []string{"mapof_string_any", "mapof_int_int64", "mapof_struct_int64"}
var hasherKinds = []string{"default", "default", "default", "const", "mod2", "identity", "lowbits", "seeded"}

// mapContainer draws kind / hasher / knobs / prefill for a map-family scenario.
func (g *genCtx) mapContainer(sc *ConcScenario, kinds []string) {
	sc.Family = "map"
	sc.Kind = kinds[g.r.Intn(len(kinds))]
	if sc.Kind != "map" {
		sc.Hasher = hasherKinds[g.r.Intn(len(hasherKinds))]
	}
	if g.r.Bool(0.06) {
		sc.Hasher = "growonly" // the internal grow-only option (tables never shrink)
	}
	g.hashMode(sc)
	per := 3
	if sc.Kind != "map" {
		per = 5
	}
	switch g.pick([]int{25, 25, 15, 35}) {
	case 0:
		sc.MinLen = 1
	case 1:
		sc.MinLen = 2
	case 2:
		sc.MinLen = 4
	case 3:
		sc.MinLen = 32
	}
	sc.Presize = 0
	sc.UsePre = g.r.Bool(0.3)
	if sc.UsePre {
		sc.Presize = []int{-5, 0, 1, 7, 100}[g.r.Intn(5)]
		if sc.Hasher != "" && sc.Hasher != "default" {
			if sc.Presize < 0 {
				sc.Presize = 0
			}
		}
	}
	tableLen := sc.MinLen
	if sc.UsePre && sc.Presize > sc.MinLen*per {
		tableLen = 1
		for float64(tableLen) < float64(sc.Presize)/float64(per)/0.75 {
			tableLen <<= 1
		}
	}
	grow := int(float64(tableLen) * float64(per) * 0.75)
	sc.PrefillKeep = -1
	switch g.pick([]int{30, 40, 30}) {
	case 0:
		sc.Prefill = 0
	case 1:
		// just around the grow threshold: the next insert into a full chain grows
		sc.Prefill = grow - 2 + g.r.Intn(4)
		if sc.Prefill < 0 {
			sc.Prefill = 0
		}
	case 2:
		// grown table emptied to the shrink threshold: the next delete that
		// empties a bucket shrinks
		sc.Prefill = grow + 2 + g.r.Intn(3)
		sc.PrefillKeep = g.r.Intn(3)
	}
	if sc.Prefill > 200 {
		sc.Prefill = 200
	}
}

var ttlChoices = []int64{1, 5, 100, int64(time.Hour), int64(time.Hour), 0, sentinelDefault, sentinelNoExp, -1}

func (g *genCtx) ttl() int64 { return ttlChoices[g.r.Intn(len(ttlChoices))] }

func (g *genCtx) cacheContainer(sc *ConcScenario, kinds []string) {
	sc.Family = "cache"
	sc.Kind = kinds[g.r.Intn(len(kinds))]
	g.hashMode(sc)
	sc.MinLen = 32
	sc.PrefillKeep = -1
	ct := CacheCtor{Kind: sc.Kind}
	switch g.pick([]int{50, 40, 10}) {
	case 0:
		ct.Ctor = "new"
		ct.SetDef, ct.SetInt, ct.SetCap = g.r.Bool(0.7), true, g.r.Bool(0.3)
	case 1:
		ct.Ctor = "default"
	case 2:
		ct.Ctor = "new"
		ct.SetInt = true
	}
	ct.DefTTL = []int64{0, 3, 50, int64(time.Hour), sentinelNoExp, -5}[g.r.Intn(6)]
	ct.Interval = []int64{0, 0, -1, 20, int64(time.Microsecond), int64(time.Second)}[g.r.Intn(6)]
	ct.MinCap = []int{-1, 0, 10, 96, 300}[g.r.Intn(5)]
	sc.Ctor = ct
	per := 3
	if sc.Kind != "cache" {
		per = 5
	}
	// knobs: with the shipped floor (96) a cache's table never has fewer than
	// 32 buckets; with the floor lowered the table is as small as a map's
	if g.r.Bool(0.55) {
		sc.MinCap = 1
		sc.MinLen = []int{1, 2, 4, 32}[g.r.Intn(4)]
	}
	tableLen := cacheTableLen(sc, per)
	grow := int(float64(tableLen) * float64(per) * 0.75)
	switch g.pick([]int{45, 40, 15}) {
	case 0:
		sc.Prefill = 0
	case 1:
		sc.Prefill = grow - 1 + g.r.Intn(3)
	case 2:
		sc.Prefill = grow + 2 + g.r.Intn(3)
		sc.PrefillKeep = g.r.Intn(3)
	}
	if sc.Prefill < 0 {
		sc.Prefill = 0
	}
	if sc.Prefill > 200 {
		sc.Prefill = 0
	}
	if sc.PrefillKeep >= sc.Prefill {
		sc.PrefillKeep = -1
	}
}

// cacheTableLen: the table length a cache starts with (for aiming the prefill
// at the grow threshold; only probes depend on it being right).
func cacheTableLen(sc *ConcScenario, per int) int {
	floor := 96
	if sc.MinCap > 0 {
		floor = sc.MinCap
	}
	minLen := sc.MinLen
	if minLen <= 0 {
		minLen = 32
	}
	hint := floor
	if sc.Ctor.Ctor == "new" && sc.Ctor.SetCap && sc.Ctor.MinCap > hint {
		hint = sc.Ctor.MinCap
	}
	if hint <= minLen*per {
		return minLen
	}
	n := 1
	for float64(n) < float64(hint)/float64(per)/0.75 {
		n <<= 1
	}
	return n
}

type mixWeights struct {
	load, store, loadOrStore, loadAndStore, loadOrCompute, compute, loadAndDelete, del, clear, rng, filler, size int
	// cache only
	getExp, getTTL, refresh, delExpired int
	setDef, setCB                       int
}

var defaultMapMix = mixWeights{load: 20, store: 18, loadOrStore: 10, loadAndStore: 8, loadOrCompute: 8, compute: 12, loadAndDelete: 8, del: 8, clear: 3, rng: 3, filler: 8}
var defaultCacheMix = mixWeights{load: 10, store: 16, loadOrStore: 8, loadAndStore: 8, loadOrCompute: 6, compute: 8, loadAndDelete: 7, del: 6, clear: 2, rng: 3, filler: 5, getExp: 6, getTTL: 5, refresh: 6, delExpired: 8}

func (g *genCtx) fn() FnKind {
	return []FnKind{FnStore, FnStore, FnDelete, FnDeleteIfLoaded, FnKeep, FnDeleteIfAbsent}[g.r.Intn(6)]
}

func (g *genCtx) mapOp(mx mixWeights, hot int, filler *int) Op {
	k := g.r.Intn(hot)
	ws := []int{mx.load, mx.store, mx.loadOrStore, mx.loadAndStore, mx.loadOrCompute, mx.compute, mx.loadAndDelete, mx.del, mx.clear, mx.rng, mx.filler, mx.size}
	switch g.pick(ws) {
	case 0:
		return Op{K: MLoad, Key: k}
	case 1:
		return Op{K: MStore, Key: k, Val: g.val()}
	case 2:
		return Op{K: MLoadOrStore, Key: k, Val: g.val()}
	case 3:
		return Op{K: MLoadAndStore, Key: k, Val: g.val()}
	case 4:
		return Op{K: MLoadOrCompute, Key: k, Val: g.val()}
	case 5:
		return Op{K: MCompute, Key: k, Val: g.val(), Fn: g.fn()}
	case 6:
		return Op{K: MLoadAndDelete, Key: k}
	case 7:
		return Op{K: MDelete, Key: k}
	case 8:
		return Op{K: MClear}
	case 9:
		op := Op{K: MRange}
		if g.r.Bool(0.25) {
			op.Stop = 1 + g.r.Intn(3)
		}
		if g.r.Bool(0.3) {
			op.Vis = []VisitorKind{VisDeleteSelf, VisStoreSelf, VisInsertNew, VisLoadOther}[g.r.Intn(4)]
			op.Key = k
		}
		return op
	case 10:
		*filler++
		if g.r.Bool(0.3) && *filler > 1 {
			return Op{K: MDelete, Key: fillerBase + g.r.Intn(*filler)}
		}
		return Op{K: MStore, Key: fillerBase + *filler - 1, Val: g.val()}
	}
	return Op{K: MSize}
}

func (g *genCtx) cacheOp(mx mixWeights, hot int, filler *int) Op {
	k := g.r.Intn(hot)
	ws := []int{mx.load, mx.store, mx.loadOrStore, mx.loadAndStore, mx.loadOrCompute, mx.compute, mx.loadAndDelete, mx.del, mx.clear, mx.rng, mx.filler, mx.size, mx.getExp, mx.getTTL, mx.refresh, mx.delExpired, mx.setDef, mx.setCB}
	switch g.pick(ws) {
	case 16:
		if g.r.Bool(0.3) {
			return Op{K: CDefaultExpiration} // the getter
		}
		return Op{K: CSetDefaultExpiration, D: g.ttl()}
	case 17:
		if g.r.Bool(0.3) {
			return Op{K: CDefaultExpiration, N: 1} // both getters: DefaultExpiration() and EvictedCallback()
		}
		return Op{K: CSetCallback, N: g.r.Intn(2)}
	case 0:
		return Op{K: CGet, Key: k}
	case 1:
		switch g.r.Intn(4) {
		case 0:
			return Op{K: CSetDefault, Key: k, Val: g.val()}
		case 1:
			return Op{K: CSetForever, Key: k, Val: g.val()}
		}
		return Op{K: CSet, Key: k, Val: g.val(), D: g.ttl()}
	case 2:
		return Op{K: CGetOrSet, Key: k, Val: g.val(), D: g.ttl()}
	case 3:
		return Op{K: CGetAndSet, Key: k, Val: g.val(), D: g.ttl()}
	case 4:
		return Op{K: CGetOrCompute, Key: k, Val: g.val(), D: g.ttl()}
	case 5:
		return Op{K: CCompute, Key: k, Val: g.val(), Fn: g.fn(), D: g.ttl()}
	case 6:
		return Op{K: CGetAndDelete, Key: k}
	case 7:
		return Op{K: CDelete, Key: k}
	case 8:
		return Op{K: CClear}
	case 9:
		op := Op{K: CRange}
		if g.r.Bool(0.2) {
			op.K = CItems
			return op
		}
		if g.r.Bool(0.25) {
			op.Stop = 1 + g.r.Intn(3)
		}
		if g.r.Bool(0.3) {
			op.Vis = []VisitorKind{VisDeleteSelf, VisStoreSelf, VisInsertNew, VisLoadOther}[g.r.Intn(4)]
			op.Key = k
			op.D = g.ttl()
		}
		return op
	case 10:
		*filler++
		return Op{K: CSet, Key: fillerBase + *filler - 1, Val: g.val(), D: []int64{0, int64(time.Hour), 2}[g.r.Intn(3)]}
	case 11:
		return Op{K: CCount}
	case 12:
		return Op{K: CGetWithExpiration, Key: k}
	case 13:
		return Op{K: CGetWithTTL, Key: k}
	case 14:
		return Op{K: CGetAndRefresh, Key: k, D: g.ttl()}
	}
	return Op{K: CDeleteExpired}
}

func (g *genCtx) dims() (maxTasks, maxOps, maxPhases int) {
	if g.tier == "thorough" {
		return 4, 8, 3
	}
	return 4, 5, 2
}

// genConc builds a scenario for a property.
func genConc(prop string, seed uint64, tier string) *ConcScenario {
	g := &genCtx{r: simrt.NewRNG(seed, 0x9E4), tier: tier, nextVal: 1000}
	sc := &ConcScenario{Prop: prop, SchedSeed: simrt.Mix64(seed ^ 0x5CED), TableSeed: simrt.Mix64(seed ^ 0x7AB1E)}
	sc.Epoch = time.Date(2000, 1, 1, 0, 0, 0, 0, time.UTC).UnixNano() + g.r.Int63n(int64(200*365*24)*int64(time.Hour))
	sc.PrefillKeep = -1
	maxTasks, maxOps, maxPhases := g.dims()
	switch prop {
	case "C02", "C03", "C04", "C07", "C14", "C16":
		// nil interface values / nil pointers are ordinary values (not for the
		// properties whose rules attribute reports and hand-overs by value id)
		g.nilP = 0.04
	}

	family := "map"
	switch prop {
	case "C02", "C06", "C09":
		family = "cache"
	case "C14":
		switch g.r.Intn(4) {
		case 0:
			g.mapContainer(sc, []string{"map"})
		case 1:
			g.mapContainer(sc, []string{"mapof_string_any", "mapof_int_ptr", "mapof_any_int64"})
		default:
			family = "cache"
		}
		if family == "cache" {
			g.cacheContainer(sc, []string{"cache", "cacheof_string_any", "cacheof_int_ptr"})
		}
		maxTasks = 8
		if tier == "thorough" {
			maxTasks = 32
		}
		sc.TwoContainers = g.r.Bool(0.3)
	case "C03":
		g.mapContainer(sc, []string{"map"})
	case "C04":
		g.mapContainer(sc, mapOfKindsNoAny)
		if g.r.Bool(0.15) {
			sc.Kind = "mapof_any_int64"
			if sc.Hasher == "default" || sc.Hasher == "" {
				// interface-kinded keys under the default hasher belong to C10 (F5)
				sc.Hasher = "seeded"
			}
		}
	default:
		switch g.r.Intn(4) {
		case 0:
			g.mapContainer(sc, []string{"map"})
		case 1:
			g.mapContainer(sc, mapOfKindsNoAny)
		default:
			family = "cache"
		}
	}
	if family == "cache" && sc.Family == "" {
		g.cacheContainer(sc, CacheKinds)
	}
	cacheFam := sc.Family == "cache"
	hot := 1 + g.r.Intn(4)
	if prop == "C05" {
		hot = 1 + g.r.Intn(2)
	}
	mx := defaultMapMix
	if cacheFam {
		mx = defaultCacheMix
	}
	if prop == "C02" && cacheFam && sc.MinCap > 0 && sc.MinLen < 32 {
		mx.filler = 14 // tiny tables: inserts of fresh keys meet the resizes they trigger
	}
	switch prop {
	case "C07":
		mx.rng = 25
	case "C08":
		mx.filler = 20
		mx.del += 6
		mx.size = 3
	case "C13":
		mx.clear = 8
		mx.filler = 18
		mx.rng = 8
	case "C06":
		mx.del, mx.loadAndDelete, mx.delExpired = 14, 14, 18
		mx.rng = 1
	case "C14":
		mx.rng = 8
		mx.clear = 5
		mx.filler = 14
		mx.setDef, mx.setCB = 6, 6
	}
	if cacheFam && sc.Prefill > 0 {
		mx.filler *= 3 // tables of caches never go below 32 buckets: more inserts per phase so that one lands on a full chain and grows
	}
	if cacheFam && (prop == "C06" || g.r.Bool(0.3)) {
		sc.CBKind = 1
		if prop == "C13" || (prop == "C06" && g.r.Bool(0.2)) || (prop == "C02" && g.r.Bool(0.3)) {
			sc.CBKind = 2
		}
		sc.Ctor.CB = g.r.Bool(0.5)
	}
	filler := 0
	// set-up: some hot keys present
	nset := g.r.Intn(hot + 2)
	for i := 0; i < nset; i++ {
		k := g.r.Intn(hot)
		if cacheFam {
			sc.Setup = append(sc.Setup, Op{K: CSet, Key: k, Val: g.val(), D: g.ttl()})
		} else {
			sc.Setup = append(sc.Setup, Op{K: MStore, Key: k, Val: g.val()})
		}
	}
	nph := 1 + g.r.Intn(maxPhases)
	if !cacheFam && nph > 2 {
		nph = 2
	}
	steps := 0
	for p := 0; p < nph; p++ {
		ph := Phase{}
		if cacheFam {
			ph.Advance = []int64{0, 1, 2, 10, 200, int64(time.Microsecond), int64(time.Second), int64(2 * time.Hour)}[g.r.Intn(8)]
		}
		nt := 2 + g.r.Intn(maxTasks-1)
		for t := 0; t < nt; t++ {
			no := 1 + g.r.Intn(maxOps)
			var prog []Op
			for i := 0; i < no; i++ {
				if cacheFam {
					prog = append(prog, g.cacheOp(mx, hot, &filler))
				} else {
					prog = append(prog, g.mapOp(mx, hot, &filler))
				}
			}
			ph.Tasks = append(ph.Tasks, prog)
			steps += no * 25
		}
		if (prop == "C06" || prop == "C02") && cacheFam && g.r.Bool(0.3) {
			// the clock moves while removers and writers are in flight: entries
			// with tiny TTLs expire between (and inside) overlapping passes
			for t := range ph.Tasks {
				for i := range ph.Tasks[t] {
					op := &ph.Tasks[t][i]
					switch op.K {
					case CSet, CGetOrSet, CGetAndSet, CGetOrCompute, CCompute, CGetAndRefresh:
						if (prop == "C02" || (op.K != CCompute && op.K != CGetAndRefresh)) && g.r.Bool(0.7) {
							op.D = int64(1 + g.r.Intn(4))
						}
					}
				}
			}
			if prop == "C02" && g.r.Bool(0.4) {
				sc.CBKind = 6 // traversing callback
				sc.Ctor.CB = sc.Ctor.Ctor != "plain" && g.r.Bool(0.5)
			}
			var clk []Op
			for i := 0; i < 2+g.r.Intn(5); i++ {
				clk = append(clk, Op{K: XTick, D: int64(1 + g.r.Intn(5))})
			}
			ph.Tasks = append(ph.Tasks, clk)
			ph.Tasks = append(ph.Tasks, []Op{{K: CDeleteExpired}, {K: CDeleteExpired}})
			nt = len(ph.Tasks)
		}
		if g.r.Bool(0.3) {
			ph.Delays = append(ph.Delays, DelayCfg{Task: g.r.Intn(nt), AtStep: 1 + g.r.Intn(40)})
		}
		stallP := 0.1
		if prop == "C13" {
			stallP = 0.35
		}
		if prop != "C16" && prop != "C14" && g.r.Bool(stallP) {
			// slow node: one task is frozen at a random step until nobody else
			// can make progress, then released (faults stop; all calls must return)
			st := &StallCfg{Task: g.r.Intn(nt), AtStep: 1 + g.r.Intn(60), Resume: true}
			if g.r.Bool(0.25) {
				st.AtStep = 1 + g.r.Intn(400)
			}
			ph.Stall = st
		}
		sc.Phases = append(sc.Phases, ph)
	}
	if prop == "C06" && cacheFam && g.r.Bool(0.25) {
		g.c06MovingClock(sc)
	}
	if prop == "C02" && cacheFam && g.r.Bool(0.06) {
		// sweeps held open by a slow callback while the clock ticks, next to
		// readers and traversals: what a reader sees is judged by the clock of
		// its own call (timed linearizability model)
		g.c06MovingClock(sc)
		ph := &sc.Phases[0]
		nk := len(sc.Setup)
		for i := 0; i < 1+g.r.Intn(2); i++ {
			var prog []Op
			for j := 0; j < 1+g.r.Intn(3); j++ {
				switch g.r.Intn(4) {
				case 0:
					prog = append(prog, Op{K: CItems})
				case 1:
					prog = append(prog, Op{K: CGet, Key: g.r.Intn(nk)})
				default:
					prog = append(prog, Op{K: CRange})
				}
			}
			ph.Tasks = append(ph.Tasks, prog)
		}
	}
	if prop == "C08" && cacheFam && g.r.Bool(0.15) {
		g.c06MovingClock(sc) // overlapping sweeps under a ticking clock: every completed sweep must be complete
		if !sc.Ctor.CB {
			sc.Ctor.CB = sc.Ctor.Ctor != "plain"
		}
	}
	switch prop {
	case "C05":
		sc.Phases[0].Stall = nil
		g.c05Workload(sc, hot)
	case "C16":
		g.c16Workload(sc, hot)
	}
	sc.Tier = tier
	if prop == "C13" && g.r.Bool(0.06) {
		// user functions that write to ANOTHER container of the same kind while
		// both containers resize (only re-entering the same container is outside
		// the guarantee)
		sc.Other = true
		for pi := range sc.Phases {
			for t := range sc.Phases[pi].Tasks {
				for i := range sc.Phases[pi].Tasks[t] {
					op := &sc.Phases[pi].Tasks[t][i]
					switch op.K {
					case MCompute, MLoadOrCompute, CCompute, CGetOrCompute:
						op.Other = 3 + g.r.Intn(6)
					}
				}
			}
			var prog []Op
			for i := 0; i < 2+g.r.Intn(3); i++ {
				filler++
				if cacheFam {
					prog = append(prog, Op{K: CGetOrCompute, Key: fillerBase + filler - 1, Val: g.val(), D: sentinelNoExp, Other: 3 + g.r.Intn(6)})
				} else {
					prog = append(prog, Op{K: MLoadOrCompute, Key: fillerBase + filler - 1, Val: g.val(), Other: 3 + g.r.Intn(6)})
				}
			}
			sc.Phases[pi].Tasks = append(sc.Phases[pi].Tasks, prog)
		}
	}
	if prop == "C13" && cacheFam && g.r.Bool(0.12) {
		// a running clock (every reading is later than the last one) and, in half
		// of these, a callback that re-arms what was evicted with a TTL of 1 ns:
		// every call must still return
		sc.TickPerRead = int64(1 + g.r.Intn(4))
		if sc.Ctor.Interval > 0 && sc.Ctor.Interval < int64(time.Second) {
			sc.Ctor.Interval = int64(time.Hour) // a janitor with a period of nanoseconds would never be idle under this clock
		}
		if g.r.Bool(0.5) {
			sc.CBKind = 5
			sc.Ctor.CB = sc.Ctor.Ctor != "plain" && g.r.Bool(0.5)
			for pi := range sc.Phases {
				sc.Phases[pi].Tasks = append(sc.Phases[pi].Tasks, []Op{{K: CDeleteExpired}})
			}
			for k := 0; k < hot; k++ {
				sc.Setup = append(sc.Setup, Op{K: CSet, Key: k, Val: g.val(), D: 1})
			}
		}
	}
	if prop == "C09" {
		g.c09Defaults(sc)
	}
	if prop == "C14" && !cacheFam && sc.Kind != "map" && g.r.Bool(0.004) {
		// a big table under the race detector: a MapOf filled to just below the
		// grow threshold of 8192 root buckets (30 720 entries), then concurrent
		// inserts that push it over while readers look up old keys
		sc.HashMode, sc.CollideN, sc.Hasher = "det", 0, ""
		sc.MinLen, sc.UsePre, sc.Presize = 32, false, 0
		sc.Prefill, sc.PrefillKeep, sc.TwoContainers = 0, -1, false
		sc.Setup = []Op{{K: XBulkInsert, Key: 100000, Val: 300000, N: 30640 + g.r.Intn(60)}}
		sc.Phases = sc.Phases[:1]
		ph := &sc.Phases[0]
		ph.Tasks, ph.Delays, ph.Stall, ph.Optional = nil, nil, nil, nil
		for t := 0; t < 3; t++ {
			ph.Tasks = append(ph.Tasks, []Op{{K: XBulkInsert, Key: 200000 + 1000*t, Val: 400000 + int64(1000*t), N: 40 + g.r.Intn(30)}})
		}
		var rd []Op
		for i := 0; i < 12; i++ {
			rd = append(rd, Op{K: MLoad, Key: 100000 + g.r.Intn(30000)})
		}
		ph.Tasks = append(ph.Tasks, rd)
	}
	sc.Strategy = g.strategy(steps + 50)
	if (prop == "C02" || prop == "C03" || prop == "C04") && g.r.Bool(0.03) {
		g.storm(sc)
	}
	if (prop == "C03" || prop == "C04") && !cacheFam && g.r.Bool(0.02) {
		// (wave 9, `C04-q`) a caller frozen between reading the table pointer and
		// locking its bucket while the table shrinks and grows back
		sc.Phases = sc.Phases[:1]
		ph := &sc.Phases[0]
		ph.Tasks, ph.Delays, ph.Stall, ph.Optional = nil, nil, nil, nil
		g.regrowRacers(sc, 0, true)
	}
	return sc
}

// storm: a few lookups of one key while several writers overwrite that key
// dozens of times, under round robin with per-task quanta: the reader is
// interrupted after every step and whole overwrites happen in between (a
// lookup must retry as long as the entry keeps changing under it, and must
// still come back with a value that was stored).
func (g *genCtx) storm(sc *ConcScenario) {
	cacheFam := sc.Family == "cache"
	sc.Phases = sc.Phases[:1]
	ph := &sc.Phases[0]
	ph.Tasks, ph.Delays, ph.Stall, ph.Optional = nil, nil, nil, nil
	key := 0
	nr := 1 + g.r.Intn(2)
	for i := 0; i < nr; i++ {
		var prog []Op
		for j := 0; j < 1+g.r.Intn(3); j++ {
			if cacheFam {
				prog = append(prog, Op{K: CGet, Key: key})
			} else {
				prog = append(prog, Op{K: MLoad, Key: key})
			}
		}
		ph.Tasks = append(ph.Tasks, prog)
	}
	for i := 0; i < 2+g.r.Intn(2); i++ {
		var prog []Op
		for j := 0; j < 10+g.r.Intn(8); j++ {
			if cacheFam {
				prog = append(prog, Op{K: CSet, Key: key, Val: g.val(), D: sentinelNoExp})
			} else {
				prog = append(prog, Op{K: MStore, Key: key, Val: g.val()})
			}
		}
		ph.Tasks = append(ph.Tasks, prog)
	}
	if cacheFam {
		sc.Setup = append(sc.Setup, Op{K: CSet, Key: key, Val: g.val(), D: sentinelNoExp})
	} else {
		sc.Setup = append(sc.Setup, Op{K: MStore, Key: key, Val: g.val()})
	}
	sc.Strategy = simrt.StrategyConfig{Kind: "rrq"}
}

// regrowRacers replaces the first phase by get-or-create racers on one key
// while another task empties the table (it shrinks) and fills it again (it
// grows back to its old length). With follow (C03/C04) every racer looks the
// key up afterwards, so that a store that went into a retired table shows in
// the history.
func (g *genCtx) regrowRacers(sc *ConcScenario, key int, follow bool) {
	ph := &sc.Phases[0]
	// racers while the table shrinks and grows back to its old length
	// (a caller frozen between reading the table pointer and locking its
	// bucket must still notice that the table was replaced)
	per := 3
	if sc.Kind != "map" {
		per = 5
	}
	sc.MinLen = 1 + g.r.Intn(2)
	sc.UsePre, sc.Presize = false, 0
	n := int(32*float64(per)*0.75) + 6 + g.r.Intn(10)
	sc.Prefill, sc.PrefillKeep = n, -1
	var su []Op
	for _, op := range sc.Setup {
		if op.Key != key {
			su = append(su, op)
		}
	}
	sc.Setup = su
	nr := 2 + g.r.Intn(2)
	slow := g.r.Bool(0.5)
	for i := 0; i < nr; i++ {
		if g.r.Bool(0.5) && !(slow && i == 0) {
			ph.Tasks = append(ph.Tasks, []Op{{K: MLoadOrStore, Key: key, Val: g.val()}})
		} else {
			// (in the slow variant the first racer sits inside its function,
			// holding the bucket, while the table is emptied and shrunk)
			ph.Tasks = append(ph.Tasks, []Op{{K: MLoadOrCompute, Key: key, Val: g.val(), Slow: slow && i == 0}})
		}
	}
	if follow {
		for i := range ph.Tasks {
			ph.Tasks[i] = append(ph.Tasks[i], Op{K: MLoad, Key: key})
		}
	}
	ph.Tasks = append(ph.Tasks, []Op{{K: XBulkDelete, Key: prefillBase, N: n}, {K: XBulkInsert, Key: prefillBase, Val: prefillVal, N: n}})
	if !slow {
		ph.Stall = &StallCfg{Task: g.r.Intn(nr), AtStep: 2 + g.r.Intn(6), Resume: true}
	}
	ph.Delays = nil
}

// c05Workload replaces the first phase by racers or an increment chain.
func (g *genCtx) c05Workload(sc *ConcScenario, hot int) {
	cacheFam := sc.Family == "cache"
	ph := &sc.Phases[0]
	ph.Tasks = nil
	key := 0
	filler := 50
	wl := g.r.Intn(3)
	if !cacheFam && g.r.Bool(0.12) {
		g.regrowRacers(sc, key, false)
		return
	}
	if wl == 2 {
		// swap chain: k tasks x n LoadAndStore / GetAndSet of unique values on one key
		n := 2 + g.r.Intn(3)
		m := 1 + g.r.Intn(3)
		for i := 0; i < n; i++ {
			var prog []Op
			for j := 0; j < m; j++ {
				if cacheFam {
					prog = append(prog, Op{K: CGetAndSet, Key: key, Val: g.val(), D: []int64{0, int64(time.Hour), sentinelNoExp}[g.r.Intn(3)]})
				} else {
					prog = append(prog, Op{K: MLoadAndStore, Key: key, Val: g.val()})
				}
			}
			ph.Tasks = append(ph.Tasks, prog)
		}
		if g.r.Bool(0.6) {
			var prog []Op
			for j := 0; j < 1+g.r.Intn(3); j++ {
				if cacheFam {
					if g.r.Bool(0.6) {
						prog = append(prog, Op{K: CGetAndRefresh, Key: key, D: int64(time.Hour)})
					} else {
						prog = append(prog, Op{K: CGet, Key: key})
					}
				} else {
					prog = append(prog, Op{K: MLoad, Key: key})
				}
			}
			ph.Tasks = append(ph.Tasks, prog)
		}
	} else if wl == 0 {
		// racers on one key (absent, live or expired-uncleaned depending on set-up and advance)
		n := 2 + g.r.Intn(3)
		for i := 0; i < n; i++ {
			var op Op
			if cacheFam {
				if g.r.Bool(0.5) {
					op = Op{K: CGetOrSet, Key: key, Val: g.val(), D: g.ttl()}
				} else {
					op = Op{K: CGetOrCompute, Key: key, Val: g.val(), D: g.ttl()}
				}
			} else {
				if g.r.Bool(0.5) {
					op = Op{K: MLoadOrStore, Key: key, Val: g.val()}
				} else {
					op = Op{K: MLoadOrCompute, Key: key, Val: g.val()}
				}
			}
			prog := []Op{op}
			if g.r.Bool(0.4) {
				if cacheFam {
					prog = append(prog, Op{K: CGet, Key: key})
				} else {
					prog = append(prog, Op{K: MLoad, Key: key})
				}
			}
			ph.Tasks = append(ph.Tasks, prog)
		}
	} else {
		// increment chain: k tasks x n increments through Compute(old+1)
		n := 2 + g.r.Intn(3)
		m := 1 + g.r.Intn(3)
		for i := 0; i < n; i++ {
			var prog []Op
			for j := 0; j < m; j++ {
				if cacheFam {
					prog = append(prog, Op{K: CCompute, Key: key, Fn: FnInc, D: []int64{0, int64(time.Hour), sentinelNoExp}[g.r.Intn(3)]})
				} else {
					prog = append(prog, Op{K: MCompute, Key: key, Fn: FnInc})
				}
			}
			ph.Tasks = append(ph.Tasks, prog)
		}
		// bystanders on the same key: reads and refreshes
		if g.r.Bool(0.6) {
			var prog []Op
			for j := 0; j < 1+g.r.Intn(3); j++ {
				if cacheFam {
					if g.r.Bool(0.5) {
						prog = append(prog, Op{K: CGetAndRefresh, Key: key, D: int64(time.Hour)})
					} else {
						prog = append(prog, Op{K: CGet, Key: key})
					}
				} else {
					prog = append(prog, Op{K: MLoad, Key: key})
				}
			}
			ph.Tasks = append(ph.Tasks, prog)
		}
		// the chain starts from a clean key
		var su []Op
		for _, op := range sc.Setup {
			if op.Key != key {
				su = append(su, op)
			}
		}
		sc.Setup = su
	}
	// writers to bucket mates and inserts that trigger a grow
	nw := g.r.Intn(3)
	for i := 0; i < nw; i++ {
		var prog []Op
		for j := 0; j < 1+g.r.Intn(4); j++ {
			filler++
			if cacheFam {
				prog = append(prog, Op{K: CSet, Key: fillerBase + filler, Val: g.val(), D: 0})
			} else {
				prog = append(prog, Op{K: MStore, Key: fillerBase + filler, Val: g.val()})
			}
		}
		ph.Tasks = append(ph.Tasks, prog)
	}
}

// c16Workload: one victim writer that is frozen for the rest of the run, and
// reader tasks that must complete without waiting.
func (g *genCtx) c16Workload(sc *ConcScenario, hot int) {
	cacheFam := sc.Family == "cache"
	sc.Phases = sc.Phases[:1]
	ph := &sc.Phases[0]
	ph.Tasks = nil
	ph.Delays = nil
	ph.Advance = 0
	// set-up: hot keys present and unexpired (or absent)
	sc.Setup = nil
	present := map[int]bool{}
	for k := 0; k < hot; k++ {
		if g.r.Bool(0.6) {
			present[k] = true
			if cacheFam {
				sc.Setup = append(sc.Setup, Op{K: CSet, Key: k, Val: g.val(), D: []int64{0, int64(time.Hour), sentinelNoExp}[g.r.Intn(3)]})
			} else {
				sc.Setup = append(sc.Setup, Op{K: MStore, Key: k, Val: g.val()})
			}
		}
	}
	// the victim
	var vprog []Op
	vk := g.r.Intn(hot)
	inFn := g.r.Bool(0.35)
	longTTL := []int64{0, int64(time.Hour), sentinelNoExp}
	if cacheFam {
		switch g.r.Intn(6) {
		case 0:
			vprog = []Op{{K: CSet, Key: vk, Val: g.val(), D: longTTL[g.r.Intn(3)]}}
			inFn = false
		case 1:
			vprog = []Op{{K: CCompute, Key: vk, Val: g.val(), Fn: FnStore, D: longTTL[g.r.Intn(3)], Park: inFn}}
		case 2:
			vprog = []Op{{K: CGetOrCompute, Key: vk, Val: g.val(), D: longTTL[g.r.Intn(3)], Park: inFn}}
		case 3:
			vprog = []Op{{K: CClear}}
			inFn = false
		case 4:
			vprog = []Op{{K: CSet, Key: fillerBase, Val: g.val()}, {K: CSet, Key: fillerBase + 1, Val: g.val()}, {K: CSet, Key: fillerBase + 2, Val: g.val()}}
			inFn = false
		case 5:
			vprog = []Op{{K: CGetAndSet, Key: vk, Val: g.val(), D: longTTL[g.r.Intn(3)]}}
			inFn = false
		}
	} else {
		switch g.r.Intn(6) {
		case 0:
			vprog = []Op{{K: MStore, Key: vk, Val: g.val()}}
			inFn = false
		case 1:
			vprog = []Op{{K: MCompute, Key: vk, Val: g.val(), Fn: FnStore, Park: inFn}}
		case 2:
			vprog = []Op{{K: MLoadOrCompute, Key: vk, Val: g.val(), Park: inFn}}
		case 3:
			vprog = []Op{{K: MClear}}
			inFn = false
		case 4:
			vprog = []Op{{K: MStore, Key: fillerBase, Val: g.val()}, {K: MStore, Key: fillerBase + 1, Val: g.val()}, {K: MStore, Key: fillerBase + 2, Val: g.val()}}
			inFn = false
		case 5:
			vprog = []Op{{K: MLoadAndStore, Key: vk, Val: g.val()}}
			inFn = false
		}
	}
	if len(vprog) == 1 && (vprog[0].K == MClear || vprog[0].K == CClear) {
		present = map[int]bool{} // a Clear may empty the table: no hit path is guaranteed
	}
	ph.Tasks = append(ph.Tasks, vprog)
	st := &StallCfg{Task: 0}
	if !inFn {
		st.AtStep = 1 + g.r.Intn(60)
		if g.r.Bool(0.3) {
			st.AtStep = 1 + g.r.Intn(400) // deep inside a resize copy
		}
	}
	ph.Stall = st
	// readers
	nr := 1 + g.r.Intn(3)
	for i := 0; i < nr; i++ {
		var prog []Op
		for j := 0; j < 1+g.r.Intn(5); j++ {
			k := g.r.Intn(hot)
			if g.r.Bool(0.2) && sc.Prefill > 0 {
				k = prefillBase + g.r.Intn(sc.Prefill)
				if sc.PrefillKeep >= 0 && sc.PrefillKeep < sc.Prefill && sc.PrefillKeep > 0 {
					k = prefillBase + g.r.Intn(sc.PrefillKeep)
				}
			}
			if cacheFam {
				switch g.r.Intn(5) {
				case 0:
					prog = append(prog, Op{K: CGetWithExpiration, Key: k})
				case 1:
					prog = append(prog, Op{K: CGetWithTTL, Key: k})
				case 2:
					prog = append(prog, Op{K: CCount})
				default:
					prog = append(prog, Op{K: CGet, Key: k})
				}
			} else {
				switch g.r.Intn(6) {
				case 0:
					prog = append(prog, Op{K: MSize})
				case 1:
					// hit path of LoadOrStore on a key that stays present
					if present[k] && k != vk {
						prog = append(prog, Op{K: MLoadOrStore, Key: k, Val: g.val(), N: 1})
					} else {
						prog = append(prog, Op{K: MLoad, Key: k})
					}
				case 2:
					if present[k] && k != vk {
						prog = append(prog, Op{K: MLoadOrCompute, Key: k, Val: g.val(), N: 1})
					} else {
						prog = append(prog, Op{K: MLoad, Key: k})
					}
				default:
					prog = append(prog, Op{K: MLoad, Key: k})
				}
			}
		}
		ph.Tasks = append(ph.Tasks, prog)
	}
	if g.r.Bool(0.04) {
		// a reader that hammers an absent key (every-Nth-call logic needs many calls)
		var prog []Op
		n := 1030 + g.r.Intn(1100)
		for j := 0; j < n; j++ {
			if cacheFam {
				prog = append(prog, Op{K: CGet, Key: 77})
			} else {
				prog = append(prog, Op{K: MLoad, Key: 77})
			}
		}
		ph.Tasks = append(ph.Tasks, prog)
	}
	// bystander writers that may legitimately block behind the victim
	if g.r.Bool(0.3) {
		var prog []Op
		k := g.r.Intn(hot)
		if cacheFam {
			prog = append(prog, Op{K: CSet, Key: k + 40, Val: g.val()})
		} else {
			prog = append(prog, Op{K: MStore, Key: k + 40, Val: g.val()})
		}
		ph.Optional = append(ph.Optional, len(ph.Tasks))
		ph.Tasks = append(ph.Tasks, prog)
	}
}

// c06MovingClock: overlapping removers while the clock ticks. Entries with
// TTLs of a few nanoseconds expire between and inside the passes, so a later
// pass removes entries an earlier, still delivering pass never saw.
func (g *genCtx) c06MovingClock(sc *ConcScenario) {
	sc.CBKind = 1
	if g.r.Bool(0.6) {
		sc.CBKind = 3 // slow callback: its first invocation stalls until nobody else can move
	}
	sc.Phases = sc.Phases[:1]
	ph := &sc.Phases[0]
	ph.Tasks, ph.Delays, ph.Stall = nil, nil, nil
	nk := 4 + g.r.Intn(4)
	sc.Setup = nil
	for k := 0; k < nk; k++ {
		sc.Setup = append(sc.Setup, Op{K: CSet, Key: k, Val: g.val(), D: int64(1 + g.r.Intn(4))})
	}
	var clk []Op
	for i := 0; i < 3+g.r.Intn(5); i++ {
		clk = append(clk, Op{K: XTick, D: int64(1 + g.r.Intn(3))})
	}
	ph.Tasks = append(ph.Tasks, clk)
	for i := 0; i < 2+g.r.Intn(2); i++ {
		ph.Tasks = append(ph.Tasks, []Op{{K: CDeleteExpired}, {K: CDeleteExpired}})
	}
	for i := 0; i < 1+g.r.Intn(2); i++ {
		var prog []Op
		for j := 0; j < 2+g.r.Intn(4); j++ {
			k := g.r.Intn(nk)
			switch g.r.Intn(6) {
			case 0:
				prog = append(prog, Op{K: CDelete, Key: k})
			case 1:
				prog = append(prog, Op{K: CGetAndDelete, Key: k})
			default:
				prog = append(prog, Op{K: CSet, Key: k, Val: g.val(), D: int64(1 + g.r.Intn(4))})
			}
		}
		ph.Tasks = append(ph.Tasks, prog)
	}
}

// c09Defaults: storing tasks use the default TTL on keys of their own while
// other tasks change the default (positive, zero, negative values in turn).
func (g *genCtx) c09Defaults(sc *ConcScenario) {
	sc.Phases = sc.Phases[:1]
	ph := &sc.Phases[0]
	ph.Tasks, ph.Delays, ph.Stall, ph.Optional = nil, nil, nil, nil
	ph.Advance = 0
	sc.Setup, sc.Prefill, sc.CBKind = nil, 0, 0
	ds := []int64{-int64(time.Hour), -1, 0, 1, 3, 1000, int64(time.Second), int64(time.Hour), sentinelNoExp}
	for i := 0; i < 1+g.r.Intn(2); i++ {
		var prog []Op
		for j := 0; j < 2+g.r.Intn(5); j++ {
			prog = append(prog, Op{K: CSetDefaultExpiration, D: ds[g.r.Intn(len(ds))]})
		}
		ph.Tasks = append(ph.Tasks, prog)
	}
	key := 0
	for i := 0; i < 1+g.r.Intn(3); i++ {
		var prog []Op
		for j := 0; j < 1+g.r.Intn(4); j++ {
			switch g.r.Intn(3) {
			case 0:
				prog = append(prog, Op{K: CSetDefault, Key: key, Val: g.val()})
			case 1:
				prog = append(prog, Op{K: CSet, Key: key, Val: g.val(), D: sentinelDefault})
			default:
				prog = append(prog, Op{K: CGetAndSet, Key: key, Val: g.val(), D: sentinelDefault})
			}
			if g.r.Bool(0.6) {
				key++
			}
		}
		key++
		ph.Tasks = append(ph.Tasks, prog)
	}
	if g.r.Bool(0.3) {
		ph.Delays = append(ph.Delays, DelayCfg{Task: g.r.Intn(len(ph.Tasks)), AtStep: 1 + g.r.Intn(20)})
	}
}
