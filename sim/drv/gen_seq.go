package main

import (
	"math"
	"sort"
	"time"

	"github.com/fufuok/cache/verifsim/simrt"
)

// Generators for the sequential scenarios.

var ttlBoundary = []int64{-2 * int64(time.Second), -int64(time.Second), -1, 0, 1, 2, 7, 100, int64(time.Millisecond), int64(time.Second), int64(time.Hour)}

func (g *genCtx) ttlWide(prop string) int64 {
	if prop != "C09" && g.r.Bool(0.04) {
		return math.MaxInt64 - g.r.Int63n(int64(200*365*24)*int64(time.Hour)) // now+d is not representable
	}
	if prop == "C09" {
		switch g.r.Intn(10) {
		case 0:
			return int64(g.r.Uint64()) // any int64
		case 1:
			return math.MaxInt64 - g.r.Int63n(1000)
		case 2:
			return math.MinInt64 + g.r.Int63n(1000)
		case 3:
			return g.r.Int63n(math.MaxInt64) // beyond what now+d can represent, sometimes
		}
	}
	return ttlBoundary[g.r.Intn(len(ttlBoundary))]
}

func (g *genCtx) seqCtor(kind string, prop string) CacheCtor {
	ct := CacheCtor{Kind: kind}
	switch g.pick([]int{45, 35, 10, 10}) {
	case 0:
		ct.Ctor = "new"
		ct.SetDef, ct.SetInt, ct.SetCap = g.r.Bool(0.7), g.r.Bool(0.8), g.r.Bool(0.3)
	case 1:
		ct.Ctor = "default"
	case 2:
		ct.Ctor = "plain"
	case 3:
		ct.Ctor = "new"
	}
	ct.DefTTL = g.ttlWide(prop)
	if ct.Ctor == "new" && ct.SetDef && g.r.Bool(0.3) {
		ct.Twice, ct.DefTTL2 = true, g.ttlWide(prop)
	}
	ct.Interval = []int64{-int64(time.Second), -1, 0, 0, 1, 5, 50, int64(time.Microsecond), int64(time.Second), int64(time.Hour)}[g.r.Intn(10)]
	ct.MinCap = []int{-100, 0, 1, 96, 97, 500}[g.r.Intn(6)]
	return ct
}

func (g *genCtx) seqHash(cfg *InstCfg) {
	switch g.pick([]int{45, 20, 20, 15}) {
	case 3:
		cfg.HashMode, cfg.CollideN = "split", 1+g.r.Intn(2)
	case 0:
		cfg.HashMode = "det"
	case 1:
		cfg.HashMode, cfg.CollideN = "collide", 1
	case 2:
		cfg.HashMode, cfg.CollideN = "collide", 2+g.r.Intn(2)
	}
}

// genSeqCache builds a sequential cache scenario for a property.
func genSeqCache(prop string, seed uint64, tier string, kinds []string) *SeqScenario {
	g := &genCtx{r: simrt.NewRNG(seed, 0x5E9), tier: tier, nextVal: 1000}
	sc := &SeqScenario{Prop: prop, Family: "cache", Mode: "model", SchedSeed: simrt.Mix64(seed ^ 0x5CED)}
	sc.Epoch = time.Date(2000, 1, 1, 0, 0, 0, 0, time.UTC).UnixNano() + g.r.Int63n(int64(150*365*24)*int64(time.Hour))
	kind := kinds[g.r.Intn(len(kinds))]
	sc.A = InstCfg{Kind: kind, MinLen: 32, SeedTag: simrt.Mix64(seed ^ 0xA)}
	if g.r.Bool(0.5) {
		sc.A.MinCap = 1
		sc.A.MinLen = []int{1, 2, 4, 32}[g.r.Intn(4)]
	}
	g.seqHash(&sc.A)
	sc.HashMode = sc.A.HashMode
	sc.A.Ctor = g.seqCtor(kind, prop)
	if g.r.Bool(0.6) || prop == "C06" || prop == "C15" {
		sc.CBKind = 1
		if (prop == "C06" || prop == "C13" || prop == "C15") && g.r.Bool(0.35) {
			sc.CBKind = 2
		}
		if prop == "C12" && g.r.Bool(0.4) {
			sc.CBKind = 4 // observer callbacks: the twins must show them the same cache
		}
		sc.A.Ctor.CB = g.r.Bool(0.6)
	}
	maxOps := 40
	if tier == "thorough" {
		maxOps = 200
	}
	n := 4 + g.r.Intn(maxOps)
	nkeys := 1 + g.r.Intn(6)
	// a light copy of the clock and of the stored instants, to aim advances at boundaries
	def, interval := sc.A.Ctor.Effective()
	if def < 1 {
		def = sentinelNoExp
	}
	now := sc.Epoch
	limit := sc.Epoch + int64(100*365*24)*int64(time.Hour)
	exps := map[int]int64{}
	noteStore := func(k int, d int64) {
		exps[k] = expiryOf(d, def, now)
	}
	advance := func() Op {
		var d int64
		switch g.pick([]int{10, 10, 35, 15, 15, 10, 5}) {
		case 0:
			d = 0
		case 1:
			d = 1
		case 2:
			// land exactly on e-1, e or e+1 of a stored entry
			var cands []int64
			for _, e := range exps {
				if e > now {
					cands = append(cands, e)
				}
			}
			if len(cands) > 0 {
				sort.Slice(cands, func(i, j int) bool { return cands[i] < cands[j] })
				e := cands[0]
				if g.r.Bool(0.4) {
					e = cands[g.r.Intn(len(cands))]
				}
				d = e - now + int64(g.r.Intn(3)) - 1
				if d < 0 {
					d = 0
				}
			} else {
				d = int64(g.r.Intn(100))
			}
		case 3:
			d = int64(g.r.Intn(200))
		case 4:
			if interval > 0 && interval < int64(365*24*time.Hour) {
				d = interval*int64(g.r.Intn(4)) + int64(g.r.Intn(3)) - 1
				if d < 0 {
					d = 0
				}
			} else {
				d = int64(time.Second)
			}
		case 5:
			d = int64(time.Hour) * int64(1+g.r.Intn(48))
		case 6:
			d = int64(10*365*24) * int64(time.Hour)
		}
		if now+d > limit || now+d < now {
			d = 1
		}
		now += d
		mt := 1 + g.r.Intn(4)
		if sc.CBKind == 2 {
			mt = 1 // re-entrant callbacks write between passes: one pass per advance keeps the model exact
		}
		return Op{K: XAdvance, D: d, N: mt}
	}
	val := func() int64 {
		if prop != "C15" && g.r.Bool(0.05) {
			return 0 // the zero / nil value
		}
		return g.val()
	}
	if prop == "C15" {
		sc.JanitorOnly = true
		// entries with various TTLs, then only the clock moves and Count is polled
		if g.r.Bool(0.4) {
			// an idle period first: the cache stays empty for several intervals
			for i := 0; i < 1+g.r.Intn(6); i++ {
				sc.Ops = append(sc.Ops, advance())
			}
		}
		if g.r.Bool(0.0004) {
			// a big cache: more entries than any per-pass budget or batch could
			// cover (2^16 and beyond), the expiring ones scattered among them;
			// two clock advances of a few intervals each must leave only the
			// immortal entries
			iv := []int64{1000, int64(time.Millisecond), int64(time.Second)}[g.r.Intn(3)]
			sc.A.Ctor.Ctor, sc.A.Ctor.Interval = "default", iv
			sc.A.HashMode, sc.A.CollideN = "det", 0 // one chain of 70 000 keys is quadratic work
			if sc.CBKind == 2 {
				sc.CBKind = 1
			}
			sc.Ops = append(sc.Ops[:0], Op{K: XBulkInsert, Key: 7000, Val: 300000, N: 66000 + g.r.Intn(30000), D: sentinelNoExp})
			for i := 0; i < 8+g.r.Intn(12); i++ {
				sc.Ops = append(sc.Ops, Op{K: CSet, Key: i, Val: g.val(), D: []int64{1, 3, 50}[g.r.Intn(3)]})
			}
			sc.Ops = append(sc.Ops, Op{K: CCount},
				Op{K: XAdvance, D: 2*iv + 60, N: 2}, Op{K: CCount},
				Op{K: XAdvance, D: 3 * iv, N: 2}, Op{K: CCount})
			return sc
		}
		ns := 1 + g.r.Intn(8)
		storeVia := -1
		if g.r.Bool(0.25) {
			storeVia = g.r.Intn(4) // every entry of this cache is created by one kind of call that is not Set
		}
		swapAt := -1
		if g.r.Bool(0.4) {
			swapAt = g.r.Intn(ns + 1) // the callback is (re)installed or removed after construction
		}
		for i := 0; i <= ns; i++ {
			if i == swapAt {
				cbk := g.r.Intn(2)
				if cbk == 1 && sc.CBKind == 2 {
					cbk = 2
				}
				sc.Ops = append(sc.Ops, Op{K: CSetCallback, N: cbk})
			}
			if i == ns {
				break
			}
			d := []int64{1, 3, 50, 1000, int64(time.Second), 0, sentinelDefault, int64(time.Hour)}[g.r.Intn(8)]
			// (a lazily started janitor must start whatever call stores first)
			sk := []OpKind{CSet, CSet, CSet, CGetOrSet, CGetAndSet, CGetOrCompute, CCompute}[g.r.Intn(7)]
			if storeVia >= 0 {
				sk = []OpKind{CGetOrSet, CGetAndSet, CGetOrCompute, CCompute}[storeVia]
			}
			sc.Ops = append(sc.Ops, Op{K: sk, Key: i, Val: g.val(), D: d, Fn: FnStore})
			noteStore(i, d)
		}
		gcAt := -1
		if g.r.Bool(0.01) {
			gcAt = g.r.Intn(3)
		}
		for i := 0; i < 3+g.r.Intn(12); i++ {
			if i == gcAt {
				sc.Ops = append(sc.Ops, Op{K: XGC})
			}
			sc.Ops = append(sc.Ops, advance())
			sc.Ops = append(sc.Ops, Op{K: CCount})
		}
		if g.r.Bool(0.5) {
			sc.Ops = append(sc.Ops, Op{K: CDeleteExpired}, Op{K: CCount})
		}
		return sc
	}
	type wt struct {
		k OpKind
		w int
	}
	mix := []wt{{CSet, 14}, {CSetDefault, 4}, {CSetForever, 3}, {CGet, 8}, {CGetWithExpiration, 6}, {CGetWithTTL, 6},
		{CGetOrSet, 6}, {CGetAndSet, 6}, {CGetAndRefresh, 6}, {CGetOrCompute, 5}, {CCompute, 8}, {CGetAndDelete, 6},
		{CDelete, 5}, {CDeleteExpired, 5}, {CRange, 4}, {CItems, 2}, {CClear, 1}, {CCount, 5}, {CSetDefaultExpiration, 3},
		{CDefaultExpiration, 2}, {CSetCallback, 1}, {XAdvance, 22}, {XBulkInsert, 2}}
	adj := func(k OpKind, w int) {
		for i := range mix {
			if mix[i].k == k {
				mix[i].w = w
			}
		}
	}
	switch prop {
	case "C06":
		adj(CGetAndDelete, 12)
		adj(CDelete, 12)
		adj(CDeleteExpired, 12)
		adj(CSetCallback, 5)
	case "C07":
		adj(CRange, 20)
		adj(CItems, 8)
	case "C08":
		adj(CCount, 20)
		adj(XBulkInsert, 4)
	case "C09":
		adj(CGetWithExpiration, 14)
		adj(CGetWithTTL, 14)
		adj(CSetDefaultExpiration, 8)
		adj(CDefaultExpiration, 5)
		adj(CRange, 1)
		adj(CDelete, 2)
		adj(CGetAndDelete, 2)
	}
	ws := make([]int, len(mix))
	for i := range mix {
		ws[i] = mix[i].w
	}
	bulk := 0
	for i := 0; i < n; i++ {
		k := g.r.Intn(nkeys)
		d := g.ttlWide(prop)
		kind := mix[g.pick(ws)].k
		switch kind {
		case XAdvance:
			sc.Ops = append(sc.Ops, advance())
		case CSet:
			sc.Ops = append(sc.Ops, Op{K: CSet, Key: k, Val: val(), D: d})
			noteStore(k, d)
		case CSetDefault:
			sc.Ops = append(sc.Ops, Op{K: CSetDefault, Key: k, Val: val()})
			noteStore(k, sentinelDefault)
		case CSetForever:
			sc.Ops = append(sc.Ops, Op{K: CSetForever, Key: k, Val: val()})
			noteStore(k, 0)
		case CGet, CGetWithExpiration, CGetWithTTL, CGetAndDelete, CDelete:
			sc.Ops = append(sc.Ops, Op{K: kind, Key: k})
		case CGetOrSet, CGetAndSet, CGetOrCompute:
			op := Op{K: kind, Key: k, Val: val(), D: d}
			if prop == "C12" && kind == CGetOrCompute && g.r.Bool(0.25) {
				op.Adv = int64(1 + g.r.Intn(6)) // a slow value function: both flavours must date the entry alike
			}
			sc.Ops = append(sc.Ops, op)
			noteStore(k, d)
		case CGetAndRefresh:
			sc.Ops = append(sc.Ops, Op{K: kind, Key: k, D: d})
			noteStore(k, d)
		case CCompute:
			op := Op{K: kind, Key: k, Val: val(), D: d, Fn: []FnKind{FnStore, FnDelete, FnDeleteIfLoaded, FnKeep, FnInc, FnDeleteIfAbsent}[g.r.Intn(6)]}
			if prop == "C12" && g.r.Bool(0.25) {
				op.Adv = int64(1 + g.r.Intn(6))
			}
			sc.Ops = append(sc.Ops, op)
			noteStore(k, d)
		case CRange:
			op := Op{K: CRange}
			if g.r.Bool(0.3) {
				op.Stop = 1 + g.r.Intn(3)
			}
			if g.r.Bool(0.35) {
				op.Vis = []VisitorKind{VisDeleteSelf, VisStoreSelf, VisInsertNew, VisLoadOther, VisAll}[g.r.Intn(5)]
				op.Key = k
				op.D = d
				if prop == "C12" || prop == "C11" {
					// mutating visitors make later results depend on the visiting
					// order, which legitimately differs between layouts
					op.Vis = VisLoadOther
					if g.r.Bool(0.15) {
						op.Vis = VisClear // what is left to visit must not depend on the flavour or the layout
					} else if prop == "C12" && g.r.Bool(0.3) {
						// a slow visitor (the twins' clock is rewound between the two calls)
						op.Vis = VisAdvance
						op.D = int64(1 + g.r.Intn(6))
					}
				} else if g.r.Bool(0.25) {
					op.Vis = VisAdvance // "unexpired when the traversal began" must hold although time passes
					op.D = int64(1 + g.r.Intn(6))
				}
			}
			if g.r.Bool(0.05) {
				op = Op{K: CRange, N: -1}
			}
			sc.Ops = append(sc.Ops, op)
		case CSetDefaultExpiration:
			sc.Ops = append(sc.Ops, Op{K: kind, D: d})
			def = d
		case CSetCallback:
			cbk := g.r.Intn(3)
			if cbk == 2 && sc.CBKind != 2 {
				cbk = 1
			}
			if cbk != 0 && sc.CBKind == 4 {
				cbk = 4
			}
			sc.Ops = append(sc.Ops, Op{K: kind, N: cbk})
		case XBulkInsert:
			cnt := 20 + g.r.Intn(120)
			if g.r.Bool(0.08) {
				cnt = 250 + g.r.Intn(450) // more entries than any internal batch size
			}
			sc.Ops = append(sc.Ops, Op{K: XBulkInsert, Key: 7000 + bulk, Val: 300000 + int64(bulk), N: cnt, D: []int64{0, 5, int64(time.Hour)}[g.r.Intn(3)]})
			bulk += cnt
			if g.r.Bool(0.5) {
				sc.Ops = append(sc.Ops, Op{K: XBulkDelete, Key: 7000 + bulk - cnt, N: cnt - g.r.Intn(3)})
			}
		default:
			sc.Ops = append(sc.Ops, Op{K: kind})
		}
	}
	return sc
}

// genSeqMap builds a sequential Map/MapOf scenario.
func genSeqMap(prop string, seed uint64, tier string, kinds []string) *SeqScenario {
	g := &genCtx{r: simrt.NewRNG(seed, 0x5EA), tier: tier, nextVal: 1000, nilP: 0.05}
	sc := &SeqScenario{Prop: prop, Family: "map", Mode: "model", SchedSeed: simrt.Mix64(seed ^ 0x5CED)}
	sc.Epoch = time.Date(2020, 1, 1, 0, 0, 0, 0, time.UTC).UnixNano()
	kind := kinds[g.r.Intn(len(kinds))]
	sc.A = g.mapInst(kind, simrt.Mix64(seed^0xA))
	sc.HashMode = sc.A.HashMode
	maxOps := 60
	bulkMax := 400
	if tier == "thorough" {
		maxOps = 300
		bulkMax = 2000

	}
	hugeP := 0.003
	if tier == "thorough" {
		hugeP = 0.02
	}
	if sc.A.HashMode == "det" && (sc.A.Hasher == "" || sc.A.Hasher == "default" || sc.A.Hasher == "seeded" || sc.A.Hasher == "identity" || sc.A.Hasher == "growonly") && g.r.Bool(hugeP) {
		// tens of thousands of keys: every grow threshold up to 2^15 buckets and
		// every number of counter stripes, then shrink all the way back
		n := 40000 + g.r.Intn(50000)
		keep := g.r.Intn(1200)
		if g.r.Bool(0.5) {
			sc.A.Hasher = "growonly" // the table stays at its largest size while the map empties
		}
		sc.Ops = append(sc.Ops, Op{K: XBulkInsert, Key: 7000, Val: 300000, N: n}, Op{K: MSize})
		sc.Ops = append(sc.Ops, Op{K: XBulkDelete, Key: 7000 + keep, N: n - keep}, Op{K: MSize}, Op{K: MRange})
		sc.Ops = append(sc.Ops, Op{K: MLoad, Key: 7000}, Op{K: MLoad, Key: 7000 + n - 1}, Op{K: MStore, Key: 1, Val: g.val()})
		sc.Ops = append(sc.Ops, Op{K: XBulkInsert, Key: 7000 + n, Val: 500000, N: 50 + g.r.Intn(3000)}, Op{K: MSize}, Op{K: MRange, Stop: 3})
		return sc
	}
	// chains are walked linearly: under forced collisions keep the key count
	// where a run costs millions of steps, not billions
	capBulk := func(mode string, n int) int {
		switch mode {
		case "collide":
			if n > 300 {
				n = 300
			}
		case "split":
			if n > 800 {
				n = 800
			}
		}
		return n
	}
	bulkMax = capBulk(sc.A.HashMode, bulkMax)
	longChain := (sc.A.HashMode == "collide" && sc.A.CollideN == 1 || sc.A.Hasher == "const") && g.r.Bool(0.2)
	if sc.A.Hasher == "const" || sc.A.Hasher == "mod2" || sc.A.Hasher == "lowbits" {
		if bulkMax > 300 {
			bulkMax = 300
		}
	}
	n := 5 + g.r.Intn(maxOps)
	nkeys := 1 + g.r.Intn(12)
	bulk := 0
	if longChain {
		// one chain of 170-260 keys (34-52 buckets of MapOf, 57-87 of Map): walks,
		// copies and traversals longer than any fixed-size scratch or sanity bound
		cnt := 170 + g.r.Intn(90)
		sc.Ops = append(sc.Ops, Op{K: XBulkInsert, Key: 7000, Val: 300000, N: cnt}, Op{K: MSize}, Op{K: MRange},
			Op{K: MLoad, Key: 7000 + cnt - 1}, Op{K: MLoad, Key: 7000 + cnt/2}, Op{K: MCompute, Key: 7000 + cnt - 2, Val: g.val(), Fn: FnStore},
			Op{K: MDelete, Key: 7000 + cnt - 3}, Op{K: MLoadOrStore, Key: 6999, Val: g.val()})
		bulk = cnt
	}
	type span struct{ from, n int }
	var spans []span
	for i := 0; i < n; i++ {
		k := g.r.Intn(nkeys)
		switch g.pick([]int{14, 12, 6, 6, 6, 12, 8, 8, 2, 5, 5, 8, 6}) {
		case 0:
			sc.Ops = append(sc.Ops, Op{K: MLoad, Key: k})
		case 1:
			sc.Ops = append(sc.Ops, Op{K: MStore, Key: k, Val: g.val()})
		case 2:
			sc.Ops = append(sc.Ops, Op{K: MLoadOrStore, Key: k, Val: g.val()})
		case 3:
			sc.Ops = append(sc.Ops, Op{K: MLoadAndStore, Key: k, Val: g.val()})
		case 4:
			sc.Ops = append(sc.Ops, Op{K: MLoadOrCompute, Key: k, Val: g.val()})
		case 5:
			sc.Ops = append(sc.Ops, Op{K: MCompute, Key: k, Val: g.val(), Fn: []FnKind{FnStore, FnDelete, FnDeleteIfLoaded, FnKeep, FnInc, FnDeleteIfAbsent}[g.r.Intn(6)]})
		case 6:
			sc.Ops = append(sc.Ops, Op{K: MLoadAndDelete, Key: k})
		case 7:
			sc.Ops = append(sc.Ops, Op{K: MDelete, Key: k})
		case 8:
			sc.Ops = append(sc.Ops, Op{K: MClear})
			spans = nil
		case 9:
			sc.Ops = append(sc.Ops, Op{K: MSize})
		case 10:
			op := Op{K: MRange}
			if g.r.Bool(0.3) {
				op.Stop = 1 + g.r.Intn(3)
			}
			if g.r.Bool(0.35) && prop != "C11" && prop != "C12" {
				op.Vis = []VisitorKind{VisDeleteSelf, VisStoreSelf, VisInsertNew, VisLoadOther, VisAll}[g.r.Intn(5)]
				op.Key = k
			} else if (prop == "C11" || prop == "C12") && g.r.Bool(0.12) {
				op.Vis = VisClear
			}
			sc.Ops = append(sc.Ops, op)
		case 11:
			cnt := 1 + g.r.Intn(bulkMax)
			if g.r.Bool(0.5) {
				cnt = 1 + g.r.Intn(40)
			}
			sc.Ops = append(sc.Ops, Op{K: XBulkInsert, Key: 7000 + bulk, Val: 300000 + int64(bulk), N: cnt})
			spans = append(spans, span{7000 + bulk, cnt})
			bulk += cnt
		case 12:
			if len(spans) > 0 {
				si := g.r.Intn(len(spans))
				sp := spans[si]
				keep := 0
				if g.r.Bool(0.5) {
					keep = g.r.Intn(3)
				}
				if sp.n-keep > 0 {
					sc.Ops = append(sc.Ops, Op{K: XBulkDelete, Key: sp.from, N: sp.n - keep})
				}
				spans = append(spans[:si], spans[si+1:]...)
			} else {
				// operations on absent keys along the full-chain path
				sc.Ops = append(sc.Ops, Op{K: MCompute, Key: 9000 + g.r.Intn(50), Val: g.val(), Fn: FnDelete})
				sc.Ops = append(sc.Ops, Op{K: MLoadAndDelete, Key: 9000 + g.r.Intn(50)})
			}
		}
	}
	sc.Ops = append(sc.Ops, Op{K: MSize}, Op{K: MRange})
	return sc
}

func (g *genCtx) mapInst(kind string, tag uint64) InstCfg {
	cfg := InstCfg{Kind: kind, SeedTag: tag}
	g.seqHash(&cfg)
	if kind != "map" {
		cfg.Hasher = hasherKinds[g.r.Intn(len(hasherKinds))]
	}
	if g.r.Bool(0.08) {
		cfg.Hasher = "growonly"
	}
	cfg.MinLen = []int{1, 2, 4, 32, 32}[g.r.Intn(5)]
	cfg.UsePre = g.r.Bool(0.5)
	if cfg.UsePre {
		cfg.Presize = []int{-7, 0, 1, 10, 97, 1000}[g.r.Intn(6)]
		if cfg.Hasher != "" && cfg.Hasher != "default" && cfg.Presize < 0 {
			cfg.Presize = 0
		}
	}
	if g.r.Bool(0.3) {
		cfg.PreClear = 1 + g.r.Intn(200)
	}
	return cfg
}

// genTwin: Cache vs CacheOf[string,any], Map vs MapOf[string,any] (C12).
func genTwin(seed uint64, tier string) *SeqScenario {
	r := simrt.NewRNG(seed, 0x771)
	if r.Bool(0.6) {
		sc := genSeqCache("C12", seed, tier, []string{"cache"})
		sc.Mode = "twin"
		b := sc.A
		b.Kind = "cacheof_string_any"
		b.Ctor.Kind = "cacheof_string_any"
		b.SeedTag = sc.A.SeedTag // same table-seed stream
		sc.B = &b
		return sc
	}
	sc := genSeqMap("C12", seed, tier, []string{"map"})
	sc.Mode = "twin"
	b := sc.A
	b.Kind = "mapof_string_any"
	if b.Hasher != "growonly" {
		b.Hasher = ""
	}
	sc.B = &b
	return sc
}

// genSibling: same kind, different capacity / seed stream / hash mode / knob /
// earlier Clear (C11).
func genSibling(seed uint64, tier string) *SeqScenario {
	r := simrt.NewRNG(seed, 0x5B1)
	g := &genCtx{r: r, tier: tier}
	if r.Bool(0.3) {
		kinds := CacheKinds
		sc := genSeqCache("C11", seed, tier, kinds)
		sc.Mode = "sibling"
		b := sc.A
		b.SeedTag = simrt.Mix64(seed ^ 0xB)
		b.Ctor.SetCap = true
		b.Ctor.Ctor = sc.A.Ctor.Ctor
		if b.Ctor.Ctor == "new" {
			b.Ctor.MinCap = []int{-3, 0, 50, 200, 1000}[r.Intn(5)]
		}
		b.PreClear = r.Intn(150)
		sc.B = &b
		return sc
	}
	kinds := []string{"map", "mapof_string_any", "mapof_int_int64", "mapof_struct_int64"}
	sc := genSeqMap("C11", seed, tier, kinds)
	sc.Mode = "sibling"
	b := g.mapInst(sc.A.Kind, simrt.Mix64(seed^0xB))
	// the sibling may collide where A does not: keep bulk sizes affordable for both
	limit := 1 << 30
	switch {
	case b.HashMode == "collide" || b.Hasher == "const" || b.Hasher == "mod2" || b.Hasher == "lowbits":
		limit = 300
	case b.HashMode == "split":
		limit = 800
	}
	for i := range sc.Ops {
		if (sc.Ops[i].K == XBulkInsert || sc.Ops[i].K == XBulkDelete) && sc.Ops[i].N > limit {
			sc.Ops[i].N = limit
		}
	}
	// the hasher is part of the sibling's configuration as well, but the key
	// type stays the same
	sc.B = &b
	return sc
}
