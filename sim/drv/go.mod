module verifdrv

go 1.23

require (
	github.com/anishathalye/porcupine v1.3.0
	github.com/fufuok/cache v0.0.0
)

replace github.com/fufuok/cache => ../repo
