package main

import (
	"encoding/json"
	"flag"
	"fmt"
	"os"
	"os/exec"
	"path/filepath"
	"runtime"
	"runtime/debug"
	"sort"
	"strconv"
	"strings"
	"sync/atomic"
	"time"

	"github.com/fufuok/cache/verifsim/simrt"
)

// Case is one simulated run, written to disk as a replay file on violation.
type Case struct {
	Property string        `json:"property"`
	Seed     uint64        `json:"seed"`
	RunIndex int           `json:"run_index"`
	Tier     string        `json:"tier"`
	Conc     *ConcScenario `json:"conc,omitempty"`
	Seq      *SeqScenario  `json:"seq,omitempty"`
	Special  *SpecialCase  `json:"special,omitempty"`
	// filled on report
	Rule        string   `json:"rule,omitempty"`
	Explanation string   `json:"explanation,omitempty"`
	TraceHash   string   `json:"trace_hash,omitempty"`
	History     []string `json:"history,omitempty"`
	Signature   string   `json:"signature,omitempty"`
	Minimised   bool     `json:"minimised,omitempty"`
}

// Outcome of executing a case.
type Outcome struct {
	Violations []Violation // owned by the property only
	Other      []Violation // rules owned by other properties (statistics)
	TraceHash  uint64
	NonTrivial bool
	Probes     map[string]int
	Steps      uint64
	Switches   uint64
	SimTime    int64
	Decisions  []uint16
	History    []string
	Aborted    string // deadlock etc. seen in a check that does not own it
	Watchdog   string // step budget: never a verdict
	Lin        [4]int // ok, illegal, unknown, skipped
	Diverged   bool
}

type PropDef struct {
	ID    string
	Gen   func(seed uint64, tier string) *Case
	Runs  map[string]int // runs per tier (thorough: a floor; the wall-clock budget decides)
	Rule  string         // coverage.rule text
	Level string
}

var props = map[string]*PropDef{}

func register(p *PropDef) { props[p.ID] = p }

// owned rules per property
var owned = map[string][]string{
	"C02": {"lin", "range-lin", "panic"}, // Range and Items are value-returning calls of the cache API (C01, C02)
	"C03": {"lin", "panic"},
	"C04": {"lin", "panic"},
	"C05": {"fn-calls", "racers", "chain", "panic"},
	"C06": {"ledger-", "panic"},
	"C07": {"range-", "panic"}, // range-visitor-stuck included
	"C08": {"size", "size-sweep-incomplete", "size-clear-survivor", "panic"},
	"C13": {"deadlock", "livelock", "panic"},
	"C09": {"expiry-default", "panic"},
	"C16": {"read-", "lin", "panic"},
	"C14": {"race", "payload", "panic"},
}

func ownedBy(prop, rule string) bool {
	for _, p := range owned[prop] {
		if rule == p || (strings.HasSuffix(p, "-") && strings.HasPrefix(rule, p)) {
			return true
		}
	}
	return false
}

func wantFor(prop string) Want {
	switch prop {
	case "C02", "C03", "C04":
		return Want{Lin: true}
	case "C05":
		return Want{Racers: true, Lin: true}
	case "C06":
		return Want{Ledger: true}
	case "C07":
		return Want{Traversal: true, Lin: true}
	case "C08":
		return Want{Size: true}
	case "C13":
		return Want{}
	case "C09":
		return Want{Defaults: true}
	case "C16":
		return Want{ReadBound: true, Lin: true}
	}
	return Want{Lin: true, Ledger: true, Traversal: true, Size: true, Racers: true, ReadBound: true}
}

// Execute runs a case.
func Execute(c *Case) *Outcome {
	switch {
	case c.Conc != nil:
		return executeConc(c)
	case c.Seq != nil:
		return executeSeq(c)
	case c.Special != nil:
		return executeSpecial(c)
	}
	panic("driver: empty case")
}

func executeConc(c *Case) *Outcome {
	var res *ConcResult
	if c.Property == "C14" {
		res = RunRace(c.Conc)
	} else {
		res = RunConc(c.Conc, wantFor(c.Property))
	}
	o := &Outcome{TraceHash: res.TraceHash, NonTrivial: res.NonTrivial, Probes: res.Probes, Steps: res.Steps,
		Switches: res.Switches, SimTime: res.SimTime, Decisions: res.Decisions, Diverged: res.Diverged}
	o.Lin = [4]int{res.LinOK, res.LinIllegal, res.LinUnknown, res.LinSkipped}
	for _, v := range res.Violations {
		switch {
		case v.Rule == "budget":
			o.Watchdog = v.Detail
		case v.Rule == "lin" && c.Property == "C05":
			o.Other = append(o.Other, v)
		case v.Rule == "lin" && c.Property == "C07":
			o.Other = append(o.Other, v)
		case ownedBy(c.Property, v.Rule):
			if v.Rule == "panic" && res.Panic != "" {
				v.Detail += "\n" + res.Panic
			}
			o.Violations = append(o.Violations, v)
		default:
			if v.Rule == "deadlock" || v.Rule == "livelock" || v.Rule == "panic" {
				o.Aborted = v.Rule
			}
			o.Other = append(o.Other, v)
		}
	}
	for _, r := range res.Recs {
		o.History = append(o.History, r.String())
	}
	for _, rp := range res.Reports {
		o.History = append(o.History, fmt.Sprintf("report cb%d (k%d,v%d) task=%d op=%d seq=%d", rp.CB, rp.K, rp.V, rp.Task, rp.OpIx, rp.Seq))
	}
	return o
}

func seedFor(base uint64, prop string, i int) uint64 {
	h := base*0x9E3779B97F4A7C15 + 0x1234
	for _, ch := range prop {
		h = simrt.Mix64(h ^ uint64(ch))
	}
	return simrt.Mix64(h ^ uint64(i)*0xD1342543DE82EF95)
}

// ---------------------------------------------------------------------------
// worker

type WorkerOut struct {
	Runs        int               `json:"runs"`
	NonTrivial  []uint64          `json:"nontrivial_hashes"`
	AllHashes   int               `json:"all_hashes"`
	Violations  []FoundViolation  `json:"violations"`
	Probes      map[string]int    `json:"probes"`
	Steps       uint64            `json:"steps"`
	Switches    uint64            `json:"switches"`
	SimTime     int64             `json:"sim_time"`
	Aborted     map[string]int    `json:"aborted"`
	OtherRules  map[string]int    `json:"other_rules"`
	Lin         [4]int            `json:"lin"`
	Strategies  map[string]int    `json:"strategies"`
	HashModes   map[string]int    `json:"hash_modes"`
	Kinds       map[string]int    `json:"kinds"`
	Knobs       map[string]int    `json:"knobs"`
	Watchdog    []string          `json:"watchdog"`
	DetChecked  int               `json:"det_checked"`
	DetMismatch []string          `json:"det_mismatch"`
	Samples     []json.RawMessage `json:"samples"`
	WallS       float64           `json:"wall_s"`
	Trouble     string            `json:"trouble"`
}

type FoundViolation struct {
	Rule      string `json:"rule"`
	Detail    string `json:"detail"`
	Replay    string `json:"replay"`
	Signature string `json:"signature"`
	Seed      uint64 `json:"seed"`
	RunIndex  int    `json:"run_index"`
	// NonReplayable: native hash mode or real GC involved; the case is
	// reported without the fresh-process replay
	NonReplayable bool `json:"non_replayable"`
}

func strategyName(s simrt.StrategyConfig) string {
	switch s.Kind {
	case "sticky":
		return fmt.Sprintf("sticky%.2f", s.Stick)
	case "pct":
		return fmt.Sprintf("pct%d", s.Depth)
	case "rr":
		return "rr"
	case "rrq":
		return "rrq"
	}
	return "random"
}

func (w *WorkerOut) noteCase(c *Case) {
	if c.Conc != nil {
		w.Strategies[strategyName(c.Conc.Strategy)]++
		hm := c.Conc.HashMode
		if hm == "collide" || hm == "split" {
			hm += strconv.Itoa(c.Conc.CollideN)
		}
		if c.Conc.Hasher != "" && c.Conc.Hasher != "default" {
			hm = "hasher:" + c.Conc.Hasher
		}
		w.HashModes[hm]++
		w.Kinds[c.Conc.Kind]++
		w.Knobs[fmt.Sprintf("minlen:%d", c.Conc.MinLen)]++
		if c.Conc.Family == "cache" {
			w.Knobs[fmt.Sprintf("mincap_floor:%d", c.Conc.MinCap)]++
		}
	}
	if c.Seq != nil {
		c.Seq.note(w)
	}
	if c.Special != nil {
		w.Kinds[c.Special.Kind]++
	}
}

func runWorker(prop, tier string, base uint64, wi, nw, runs int, budget time.Duration, replayDir, outPath string, maxViol int) {
	pd := props[prop]
	out := &WorkerOut{Probes: map[string]int{}, Aborted: map[string]int{}, OtherRules: map[string]int{}, Strategies: map[string]int{}, HashModes: map[string]int{}, Kinds: map[string]int{}, Knobs: map[string]int{}}
	start := time.Now()
	seen := map[uint64]bool{}
	all := map[uint64]bool{}
	defer func() {
		out.WallS = time.Since(start).Seconds()
		for h := range seen {
			out.NonTrivial = append(out.NonTrivial, h)
		}
		out.AllHashes = len(all)
		b, _ := json.Marshal(out)
		os.WriteFile(outPath, b, 0o644)
	}()
	var progress int64
	go func() {
		// real-time watchdog: a single run that takes a minute is simulator
		// trouble (never a verdict)
		last, stuck := int64(-1), 0
		for {
			time.Sleep(5 * time.Second)
			p := atomic.LoadInt64(&progress)
			if p == last {
				stuck++
			} else {
				last, stuck = p, 0
			}
			if stuck >= 120 {
				fmt.Fprintf(os.Stderr, "worker %d: run %d made no progress for 600 s (watchdog)\n", wi, p)
				os.Exit(3)
			}
		}
	}()
	inflight, _ := os.OpenFile(outPath+".inflight", os.O_CREATE|os.O_WRONLY, 0o644)
	for i := wi; ; i += nw {
		atomic.StoreInt64(&progress, int64(i))
		if inflight != nil {
			inflight.WriteAt([]byte(fmt.Sprintf("%020d", i)), 0) // which run a crash of this process belongs to
		}
		if budget > 0 {
			if time.Since(start) > budget && i >= runs {
				break
			}
			if time.Since(start) > budget+budget/4 {
				break
			}
		} else if i >= runs {
			break
		}
		seed := seedFor(base, prop, i)
		c := pd.Gen(seed, tier)
		c.Property, c.Seed, c.RunIndex, c.Tier = prop, seed, i, tier
		gcTick()
		o := Execute(c)
		out.Runs++
		out.noteCase(c)
		out.Steps += o.Steps
		out.Switches += o.Switches
		out.SimTime += o.SimTime
		for k, v := range o.Probes {
			out.Probes[k] += v
		}
		for j := range o.Lin {
			out.Lin[j] += o.Lin[j]
		}
		for _, v := range o.Other {
			out.OtherRules[v.Rule]++
		}
		if o.Aborted != "" {
			out.Aborted[o.Aborted]++
		}
		if o.Watchdog != "" {
			out.Watchdog = append(out.Watchdog, fmt.Sprintf("run %d seed %d: %s", i, seed, o.Watchdog))
		}
		all[o.TraceHash] = true
		if o.NonTrivial {
			seen[o.TraceHash] = true
		}
		if len(out.Samples) < 2 && o.NonTrivial {
			cc := *c
			cc.History = o.History
			if len(cc.History) > 40 {
				cc.History = cc.History[:40]
			}
			b, _ := json.Marshal(cc)
			out.Samples = append(out.Samples, b)
		}
		// determinism self-check on a sample
		if i%97 == 3 && traceStable(c) {
			c2 := pd.Gen(seed, tier)
			c2.Property, c2.Seed, c2.RunIndex, c2.Tier = prop, seed, i, tier
			o2 := Execute(c2)
			out.DetChecked++
			if o2.TraceHash != o.TraceHash {
				out.DetMismatch = append(out.DetMismatch, fmt.Sprintf("run %d seed %d: trace hash %x vs %x", i, seed, o.TraceHash, o2.TraceHash))
			}
		}
		if len(o.Violations) > 0 && len(out.Violations) < maxViol {
			fv := reportViolation(c, o, replayDir)
			out.Violations = append(out.Violations, fv)
			if len(out.Violations) >= maxViol {
				break // enough to fail the check; do not burn the budget
			}
		}
	}
}

// The collector is switched off while a run executes (an address that is
// freed and reused inside one run would get the ordinal of the old object and
// change the event-trace hash, although not the schedule); it runs between
// runs instead.
var gcCount int

func gcTick() {
	if gcCount == 0 {
		debug.SetGCPercent(-1)
	}
	gcCount++
	if gcCount%64 == 0 {
		runtime.GC()
	}
}

// traceStable: the event trace of the case is a pure function of its seed. A
// real collection inside a run (XGC) frees and reuses addresses, which changes
// object ordinals in the trace but not the verdict: such cases are replayed to
// confirm violations, but not compared hash by hash.
func traceStable(c *Case) bool {
	if nonReplayable(c) {
		return false
	}
	if c.Seq != nil {
		for _, op := range c.Seq.Ops {
			if op.K == XGC {
				return false
			}
		}
	}
	return true
}

func nonReplayable(c *Case) bool {
	if c.Conc != nil && c.Conc.HashMode == "native" {
		return true
	}
	if c.Special != nil {
		return c.Special.NonReplayable
	}
	if c.Seq != nil && c.Seq.HashMode == "native" {
		return true
	}
	return false
}

// reportViolation minimises the case, replays it, and writes the replay file.
func reportViolation(c *Case, o *Outcome, replayDir string) FoundViolation {
	rule := o.Violations[0].Rule
	min, mo := shrinkCase(c, o, rule)
	min.Rule = mo.Violations[0].Rule
	min.Explanation = mo.Violations[0].Detail
	min.TraceHash = fmt.Sprintf("%016x", mo.TraceHash)
	min.History = mo.History
	min.Signature = signatureOf(min, mo)
	if min.Conc != nil {
		min.Conc.Replay = nil
		min.Conc.ReplayRLE = encodeRLE(mo.Decisions)
	}
	if min.Seq != nil {
		min.Seq.Replay = nil
		min.Seq.ReplayRLE = encodeRLE(mo.Decisions)
	}
	os.MkdirAll(replayDir, 0o755)
	path := filepath.Join(replayDir, fmt.Sprintf("%s-%d-%d.json", c.Property, c.Seed, c.RunIndex))
	b, _ := json.MarshalIndent(min, "", " ")
	os.WriteFile(path, b, 0o644)
	return FoundViolation{Rule: min.Rule, Detail: min.Explanation, Replay: path, Signature: min.Signature, Seed: c.Seed, RunIndex: c.RunIndex, NonReplayable: nonReplayable(c)}
}

// ---------------------------------------------------------------------------
// parent

type KnownFinding struct {
	Property  string `json:"property"`
	Status    string `json:"status"` // "open" | "fixed"
	Signature string `json:"signature"`
	Text      string `json:"text"`
	Commit    string `json:"commit,omitempty"`
}

func loadKnown(path string) []KnownFinding {
	var k struct {
		Findings []KnownFinding `json:"findings"`
	}
	b, err := os.ReadFile(path)
	if err != nil {
		return nil
	}
	if err := json.Unmarshal(b, &k); err != nil {
		fmt.Fprintf(os.Stderr, "known findings file unreadable: %v\n", err)
		os.Exit(2)
	}
	return k.Findings
}

func main() {
	prop := flag.String("prop", "", "property id")
	tier := flag.String("tier", "quick", "quick|thorough")
	seed := flag.Uint64("seed", 1, "base seed (VERIF_SEED)")
	runs := flag.Int("runs", 0, "number of runs (0: the property's default for the tier)")
	budgetS := flag.Int("budget", 0, "wall-clock budget in seconds (thorough)")
	workers := flag.Int("workers", 0, "worker processes")
	worker := flag.Int("worker", -1, "internal: worker index")
	outPath := flag.String("out", "", "internal: worker output")
	evidence := flag.String("evidence", "", "evidence file to write")
	replayDir := flag.String("replaydir", "/verif/replays", "where replay files go")
	replay := flag.String("replay", "", "replay file to re-execute")
	known := flag.String("known", "/verif/known_findings.json", "known findings file")
	one := flag.Int("one", -1, "run a single run index verbosely")
	detDump := flag.String("detdump", "", "write 'index tracehash' lines for runs [0,runs) to this file (determinism self-test)")
	flag.Parse()

	if *replay != "" {
		os.Exit(doReplay(*replay))
	}
	pd := props[*prop]
	if pd == nil {
		fmt.Fprintf(os.Stderr, "unknown property %q\n", *prop)
		os.Exit(2)
	}
	if pd.ID == "C14" && !simrt.RaceBuild && *worker >= 0 {
		fmt.Fprintln(os.Stderr, "C14 needs the -race build of the driver")
		os.Exit(2)
	}
	n := *runs
	if n == 0 {
		n = pd.Runs[*tier]
	}
	if *detDump != "" {
		f, _ := os.Create(*detDump)
		for i := 0; i < n; i++ {
			s := seedFor(*seed, *prop, i)
			c := pd.Gen(s, *tier)
			c.Property, c.Seed, c.RunIndex, c.Tier = *prop, s, i, *tier
			if !traceStable(c) {
				continue
			}
			gcTick()
			o := Execute(c)
			fmt.Fprintf(f, "%d %016x %d %d\n", i, o.TraceHash, o.Steps, len(o.Violations))
		}
		f.Close()
		return
	}
	if *one >= 0 {
		s := seedFor(*seed, *prop, *one)
		c := pd.Gen(s, *tier)
		c.Property, c.Seed, c.RunIndex, c.Tier = *prop, s, *one, *tier
		o := Execute(c)
		b, _ := json.MarshalIndent(c, "", " ")
		fmt.Println(string(b))
		for _, h := range o.History {
			fmt.Println(h)
		}
		fmt.Printf("violations=%v other=%v hash=%x steps=%d aborted=%q probes=%v\n", o.Violations, o.Other, o.TraceHash, o.Steps, o.Aborted, o.Probes)
		return
	}
	budget := time.Duration(*budgetS) * time.Second
	if *worker >= 0 {
		runtime.GOMAXPROCS(2)
		runWorker(*prop, *tier, *seed, *worker, *workers, n, budget, *replayDir, *outPath, 3)
		return
	}
	os.Exit(runParent(pd, *tier, *seed, n, budget, *workers, *evidence, *replayDir, *known))
}

func runParent(pd *PropDef, tier string, seed uint64, n int, budget time.Duration, nw int, evidence, replayDir, knownPath string) int {
	start := time.Now()
	if nw <= 0 {
		nw = runtime.NumCPU()
	}
	if pd.ID == "C15" && nw > 8 {
		nw = 8
	}
	self, _ := os.Executable()
	tmp, err := os.MkdirTemp("", "simdrv-")
	if err != nil {
		fmt.Fprintln(os.Stderr, err)
		return 2
	}
	defer os.RemoveAll(tmp)
	cmds := make([]*exec.Cmd, nw)
	outs := make([]string, nw)
	for i := 0; i < nw; i++ {
		outs[i] = filepath.Join(tmp, fmt.Sprintf("w%d.json", i))
		args := []string{"-prop", pd.ID, "-tier", tier, "-seed", strconv.FormatUint(seed, 10), "-runs", strconv.Itoa(n),
			"-workers", strconv.Itoa(nw), "-worker", strconv.Itoa(i), "-out", outs[i], "-replaydir", replayDir,
			"-budget", strconv.Itoa(int(budget / time.Second))}
		cmd := exec.Command(self, args...)
		cmd.Stdout = os.Stderr
		errf, _ := os.Create(outs[i] + ".stderr")
		cmd.Stderr = errf
		racelog := filepath.Join(tmp, fmt.Sprintf("race%d", i))
		cmd.Env = append(os.Environ(), "GORACE=halt_on_error=0 exitcode=0 log_path="+racelog, "VERIF_RACELOG="+racelog)
		if err := cmd.Start(); err != nil {
			fmt.Fprintln(os.Stderr, err)
			return 2
		}
		cmds[i] = cmd
	}
	trouble := ""
	var crashes []FoundViolation
	for i, cmd := range cmds {
		err := cmd.Wait()
		errText, _ := os.ReadFile(outs[i] + ".stderr")
		if len(errText) > 0 && err == nil {
			os.Stderr.Write(tailBytes(errText, 4000))
		}
		if err != nil {
			if pd.ID == "C14" && cmd.ProcessState.ExitCode() == 66 {
				continue // the race detector's exit status after it reported a race
			}
			// a process-fatal error (fatal error / unexpected signal) inside the code
			// under test kills the worker: find the run it belongs to and replay it
			if fv, ok := crashCase(pd, tier, seed, outs[i], errText, replayDir, self); ok {
				crashes = append(crashes, fv)
				continue
			}
			os.Stderr.Write(tailBytes(errText, 4000))
			trouble = fmt.Sprintf("worker %d: %v", i, err)
		}
	}
	agg := &WorkerOut{Probes: map[string]int{}, Aborted: map[string]int{}, OtherRules: map[string]int{}, Strategies: map[string]int{}, HashModes: map[string]int{}, Kinds: map[string]int{}, Knobs: map[string]int{}}
	distinct := map[uint64]bool{}
	for i := range outs {
		b, err := os.ReadFile(outs[i])
		if err != nil {
			if len(crashes) == 0 {
				trouble = fmt.Sprintf("worker %d wrote no output: %v", i, err)
			}
			continue
		}
		var w WorkerOut
		if err := json.Unmarshal(b, &w); err != nil {
			trouble = fmt.Sprintf("worker %d output unreadable: %v", i, err)
			continue
		}
		agg.Runs += w.Runs
		agg.AllHashes += w.AllHashes
		agg.Steps += w.Steps
		agg.Switches += w.Switches
		agg.SimTime += w.SimTime
		agg.DetChecked += w.DetChecked
		agg.DetMismatch = append(agg.DetMismatch, w.DetMismatch...)
		agg.Watchdog = append(agg.Watchdog, w.Watchdog...)
		agg.Violations = append(agg.Violations, w.Violations...)
		for _, h := range w.NonTrivial {
			distinct[h] = true
		}
		merge := func(dst, src map[string]int) {
			for k, v := range src {
				dst[k] += v
			}
		}
		merge(agg.Probes, w.Probes)
		merge(agg.Aborted, w.Aborted)
		merge(agg.OtherRules, w.OtherRules)
		merge(agg.Strategies, w.Strategies)
		merge(agg.HashModes, w.HashModes)
		merge(agg.Kinds, w.Kinds)
		merge(agg.Knobs, w.Knobs)
		for j := range agg.Lin {
			agg.Lin[j] += w.Lin[j]
		}
		if len(agg.Samples) < 3 {
			agg.Samples = append(agg.Samples, w.Samples...)
		}
		if w.Trouble != "" {
			trouble = w.Trouble
		}
	}
	// C14: race reports are parsed from the detector's log files
	if pd.ID == "C14" {
		inCode, driverOnly, sample := collectRaceReports(tmp, replayDir)
		agg.Probes["race_reports_in_code"] = inCode
		if inCode == 0 && driverOnly > 0 {
			trouble = "race reports located purely in driver/simulator code (my bug, not a verdict): " + sample
			agg.Violations = nil
		}
		for i := range agg.Violations {
			if agg.Violations[i].Rule == "race" {
				agg.Violations[i].Detail += "\n" + sample
			}
		}
	}
	agg.Violations = append(agg.Violations, crashes...)
	wall := time.Since(start).Seconds()

	// known findings
	known := loadKnown(knownPath)
	var fresh []FoundViolation
	knownHit := map[string]bool{}
	for _, v := range agg.Violations {
		matched := false
		for _, k := range known {
			if k.Status == "open" && k.Property == pd.ID && k.Signature == v.Signature {
				matched = true
				if !knownHit[k.Signature] {
					knownHit[k.Signature] = true
					fmt.Printf("KNOWN-FINDING: property=%s %s\n", pd.ID, k.Text)
				}
			}
		}
		if !matched {
			fresh = append(fresh, v)
		}
	}
	// confirm fresh violations by replaying them in this (fresh) process tree
	var confirmed []FoundViolation
	for _, v := range fresh {
		if v.Replay == "" || v.NonReplayable {
			confirmed = append(confirmed, v)
			continue
		}
		cmd := exec.Command(self, "-replay", v.Replay)
		if pd.ID == "C14" {
			rl := filepath.Join(tmp, "replayrace")
			cmd.Env = append(os.Environ(), "GORACE=halt_on_error=0 exitcode=0 log_path="+rl, "VERIF_RACELOG="+rl)
		}
		outb, _ := cmd.CombinedOutput()
		code := cmd.ProcessState.ExitCode()
		if code == 1 {
			confirmed = append(confirmed, v)
		} else {
			trouble = fmt.Sprintf("violation %s did not reproduce on replay (exit %d): %s", v.Replay, code, strings.TrimSpace(string(outb)))
		}
	}

	// evidence
	probeZero := []string{}
	for _, p := range expectedProbes[pd.ID] {
		if agg.Probes[p] == 0 {
			probeZero = append(probeZero, p)
		}
	}
	sort.Strings(probeZero)
	cov := map[string]interface{}{
		"evaluations":               agg.Runs,
		"distinct_nontrivial":       len(distinct),
		"rule":                      pd.Rule,
		"samples":                   agg.Samples,
		"runs_per_hour":             int(float64(agg.Runs) / wall * 3600),
		"steps":                     agg.Steps,
		"context_switches":          agg.Switches,
		"simulated_time_ns":         agg.SimTime,
		"distinct_event_traces_sum": agg.AllHashes,
		"fault_and_probe_counts":    agg.Probes,
		"probe_zero":                probeZero,
		"strategies":                agg.Strategies,
		"hash_modes":                agg.HashModes,
		"containers":                agg.Kinds,
		"knobs":                     agg.Knobs,
		"porcupine":                 map[string]int{"ok": agg.Lin[0], "illegal": agg.Lin[1], "unknown": agg.Lin[2], "skipped": agg.Lin[3]},
		"aborted_runs":              agg.Aborted,
		"other_rules_seen":          agg.OtherRules,
		"determinism_reexecuted":    agg.DetChecked,
		"determinism_mismatches":    len(agg.DetMismatch),
		"seeds":                     fmt.Sprintf("run seed i = mix(VERIF_SEED=%d, %s, i) for i in [0,%d)", seed, pd.ID, agg.Runs),
		"workers":                   nw,
		"real_components":           realComponents,
		"stub_components":           stubComponents,
		"known_findings_hit":        len(knownHit),
	}
	ev := map[string]interface{}{
		"property_id": pd.ID,
		"tier":        tier,
		"seed":        seed,
		"level":       "exploration",
		"coverage":    cov,
		"assumptions": assumptions,
		"wall_s":      wall,
		"violations":  len(confirmed),
	}
	if evidence != "" {
		os.MkdirAll(filepath.Dir(evidence), 0o755)
		b, _ := json.MarshalIndent(ev, "", " ")
		if err := os.WriteFile(evidence, b, 0o644); err != nil {
			fmt.Fprintln(os.Stderr, err)
			return 2
		}
	}
	fmt.Printf("%s %s: runs=%d distinct_nontrivial=%d steps=%d wall=%.1fs violations=%d aborted=%v probe_zero=%v lin=%v\n",
		pd.ID, tier, agg.Runs, len(distinct), agg.Steps, wall, len(confirmed), agg.Aborted, probeZero, agg.Lin)
	if len(confirmed) > 0 {
		if len(confirmed) > 12 {
			confirmed = confirmed[:12]
		}
		for _, v := range confirmed {
			fmt.Printf("VIOLATION property=%s replay=%s\n", pd.ID, v.Replay)
			fmt.Printf("  rule=%s %s\n", v.Rule, firstLine(v.Detail))
		}
		return 1
	}
	if len(agg.DetMismatch) > 0 {
		// Re-executing a run in the same process gave another event trace. On the
		// unchanged tree this does not happen (tools/determinism.sh); on an edited
		// tree it means the code keeps state across runs that no seam owns (a
		// package-level counter feeding table seeds, say). Verdicts do not depend
		// on it, exact replay does: recorded in the evidence, not fatal.
		fmt.Fprintf(os.Stderr, "note: %d of %d re-executed runs produced a different event trace (state outside the simulator's seams): %s\n", len(agg.DetMismatch), agg.DetChecked, agg.DetMismatch[0])
	}
	if len(agg.Watchdog) > 0 {
		fmt.Fprintf(os.Stderr, "watchdog: %v\n", agg.Watchdog[0])
		return 2
	}
	if trouble != "" {
		fmt.Fprintf(os.Stderr, "trouble: %s\n", trouble)
		return 2
	}
	return 0
}

func tailBytes(b []byte, n int) []byte {
	if len(b) > n {
		return b[len(b)-n:]
	}
	return b
}

// crashInCode: the dying worker's stack shows a frame of the code under test
// (and the runtime did not merely detect that the simulator itself hung).
func crashInCode(stderr string) bool {
	if !strings.Contains(stderr, "fatal error:") && !strings.Contains(stderr, "unexpected signal") {
		return false
	}
	if strings.Contains(stderr, "all goroutines are asleep") {
		return false
	}
	for _, l := range strings.Split(stderr, "\n") {
		l = strings.TrimSpace(l)
		if strings.HasPrefix(l, "github.com/fufuok/cache") && !strings.Contains(l, "/verifsim/") {
			return true
		}
	}
	return false
}

// crashCase rebuilds the case the crashed worker was executing, writes it as a
// replay file and confirms the crash in a fresh process.
func crashCase(pd *PropDef, tier string, base uint64, outPath string, errText []byte, replayDir, self string) (FoundViolation, bool) {
	if !crashInCode(string(errText)) {
		return FoundViolation{}, false
	}
	b, err := os.ReadFile(outPath + ".inflight")
	if err != nil {
		return FoundViolation{}, false
	}
	idx, err := strconv.Atoi(strings.TrimLeft(strings.TrimSpace(string(b)), "0"))
	if err != nil {
		idx = 0
	}
	s := seedFor(base, pd.ID, idx)
	c := pd.Gen(s, tier)
	c.Property, c.Seed, c.RunIndex, c.Tier = pd.ID, s, idx, tier
	c.Rule = "crash"
	c.Explanation = "the process died with a fatal runtime error inside the code under test:\n" + string(tailBytes(errText, 3000))
	os.MkdirAll(replayDir, 0o755)
	path := filepath.Join(replayDir, fmt.Sprintf("%s-%d-%d-crash.json", pd.ID, s, idx))
	jb, _ := json.MarshalIndent(c, "", " ")
	os.WriteFile(path, jb, 0o644)
	out, _ := exec.Command(self, "-replay", path).CombinedOutput()
	if !crashInCode(string(out)) {
		return FoundViolation{}, false // not reproducible: leave it as trouble
	}
	return FoundViolation{Rule: "crash", Detail: firstLine(fatalLine(string(out))), Replay: path, Signature: pd.ID + "/crash", Seed: s, RunIndex: idx, NonReplayable: true}, true
}

func fatalLine(s string) string {
	for _, l := range strings.Split(s, "\n") {
		if strings.Contains(l, "fatal error:") || strings.Contains(l, "unexpected signal") {
			return "fatal runtime error inside the code under test: " + strings.TrimSpace(l)
		}
	}
	return "fatal runtime error inside the code under test"
}

func firstLine(s string) string {
	if i := strings.IndexByte(s, '\n'); i >= 0 {
		return s[:i]
	}
	return s
}

var realComponents = []string{
	"every line of packages cache and internal/xsync as found in /repo's working tree (lockBucket, doCompute, resize, copyBucket, Range, janitor loop body, DeleteExpired, finalizer registration)",
	"the real sync/atomic operations, the real sync.Mutex (TryLock/Unlock once granted by the scheduler), the real atomic.Value",
	"Go GC and finalizer goroutine (C15b only; uncontrolled)",
}
var stubComponents = []string{
	"goroutine scheduling (seeded scheduler decides at every sync/atomic, mutex, cond, Gosched, time.Now call)",
	"sync.Cond and mutex wait sets", "clock, time.Ticker/Timer (virtual, discrete-event)",
	"go statement and the janitor's select", "runtime.Gosched",
	"table seed source (runtime.fastrand) and, in det/collide hash modes, runtime.memhash/typehash",
}
var assumptions = []string{
	"interleavings are explored at synchronisation-operation granularity under sequential consistency (adequate given data-race freedom, C14)",
	"a clean batch is evidence, not proof: schedules, programs and faults are sampled from a seeded PRNG",
	"the instrumented scratch copy (imports of sync, sync/atomic, runtime, time redirected to shims) behaves like the shipped code apart from scheduling and time",
}

var expectedProbes = map[string][]string{
	"C03": {"grows", "shrinks", "cas_fail", "cond_wait", "chained_buckets"},
	"C04": {"grows", "shrinks", "mutex_block", "cond_wait", "chained_buckets"},
	"C02": {"ticks_sent", "cond_wait"},
	"C05": {"racer_keys", "chain_keys", "swap_keys"},
	"C06": {"reports", "ticks_sent"},
	"C07": {"ranges", "ranges_overlapped", "ranges_quiet"},
	"C08": {"grows", "shrinks"},
	"C13": {"cond_wait", "grows", "shrinks", "stalls_resumed"},
	"C16": {"stall_fired", "reads_behind_stall"},
}

// doReplay re-executes a replay file: exit 1 if the same rule is violated
// again (with the same trace hash), 0 if nothing is violated, 2 on divergence.
func doReplay(path string) int {
	b, err := os.ReadFile(path)
	if err != nil {
		fmt.Fprintln(os.Stderr, err)
		return 2
	}
	var c Case
	if err := json.Unmarshal(b, &c); err != nil {
		fmt.Fprintln(os.Stderr, err)
		return 2
	}
	if c.Conc != nil && c.Conc.ReplayRLE != "" && c.Conc.Replay == nil {
		c.Conc.Replay = decodeRLE(c.Conc.ReplayRLE)
	}
	if c.Seq != nil && c.Seq.ReplayRLE != "" && c.Seq.Replay == nil {
		c.Seq.Replay = decodeRLE(c.Seq.ReplayRLE)
	}
	o := Execute(&c)
	if o.Diverged {
		fmt.Printf("replay diverged from the recorded schedule (the tree differs from the one the replay was recorded on)\n")
	}
	for _, h := range o.History {
		fmt.Println("  " + h)
	}
	if len(o.Violations) == 0 {
		fmt.Printf("replay %s: no violation (trace %016x, recorded %s)\n", path, o.TraceHash, c.TraceHash)
		return 0
	}
	for _, v := range o.Violations {
		fmt.Printf("VIOLATION property=%s replay=%s\n  rule=%s %s\n", c.Property, path, v.Rule, v.Detail)
	}
	if o.Violations[0].Rule != c.Rule {
		fmt.Printf("note: recorded rule was %s\n", c.Rule)
	}
	if fmt.Sprintf("%016x", o.TraceHash) != c.TraceHash {
		fmt.Printf("note: trace hash %016x differs from recorded %s\n", o.TraceHash, c.TraceHash)
	}
	return 1
}
