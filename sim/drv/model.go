package main

import (
	"fmt"
	"math"
	"time"

	"github.com/anishathalye/porcupine"
)

// Linearizability models (DESIGN §3.2, Appendix A). The state is a fixed-size
// array over the key universe of one phase, so it is comparable with ==.

const maxSlots = 16
const absent = math.MinInt64

const (
	sentinelDefault = -int64(time.Second)     // cache.DefaultExpiration
	sentinelNoExp   = -2 * int64(time.Second) // cache.NoExpiration
)

type linState struct {
	V   [maxSlots]int64
	E   [maxSlots]int64 // cache: expiration instant (0 = never)
	EH  [maxSlots]int64 // timed phases only: the instant lies in [E, EH] (the storing call read the clock somewhere in its window)
	Pre bool            // the prefill block is present (only Clear changes it)
}

func emptyState() linState {
	var s linState
	for i := range s.V {
		s.V[i] = absent
	}
	return s
}

// linInput is the porcupine input: the operation plus its slot.
type linInput struct {
	Op   Op
	Slot int
	// PseudoLoad: a Range visit turned into Load(k) -> (v, true)
	Pseudo bool
	// cache family constants of the phase
	Cache bool
	Now   int64
	Def   int64
	// Timed: the clock ticks inside this phase; the call read it somewhere in
	// [Now, NowHi] (its values at invocation and at return)
	Timed bool
	NowHi int64
	// Wild: the operation never returned; its output is unknown
	Wild bool
	// PreN: how many prefill keys (prefillBase..) the set-up left present;
	// they are modelled as one block that only Clear changes
	PreN int
}

type linOutput struct {
	Val      int64
	Ok       bool
	Exp      int64
	TTL      int64
	N        int
	FnCalls  int
	FnOld    int64
	FnLoaded bool
}

// expiry instant of a TTL argument (Appendix A: E(d)).
func expiryOf(d, def, now int64) int64 {
	if d == sentinelDefault {
		d = def
	}
	if d > 0 {
		e := now + d
		if e < now { // not representable: behaves as never expiring (DESIGN C09 stated bound)
			return 0
		}
		return e
	}
	return 0
}

func fnResult(op Op, old int64, loaded bool) (int64, bool) {
	switch op.Fn {
	case FnDelete:
		return 0, true
	case FnDeleteIfLoaded:
		if loaded {
			return 0, true
		}
		return op.Val, false
	case FnKeep:
		if loaded {
			return old, false
		}
		return op.Val, false
	case FnInc:
		if loaded {
			return old + 1, false
		}
		return 1, false
	case FnDeleteIfAbsent:
		if !loaded {
			return op.Val, true
		}
		return op.Val, false
	}
	return op.Val, false
}

// linStep is the sequential specification. It returns whether the output is
// legal in this state and the next state.
func linStep(st linState, in linInput, out linOutput) (bool, linState) {
	op := in.Op
	i := in.Slot
	present := false
	var cur int64
	if i >= 0 {
		cur = st.V[i]
		present = cur != absent
	}
	if i == -2 {
		// a read of a prefill key
		idx := op.Key - prefillBase
		present = st.Pre && idx < in.PreN
		cur = prefillVal + int64(idx)
		switch op.K {
		case MLoad, CGet, CGetWithExpiration, CGetWithTTL:
		default:
			if !in.Pseudo {
				panic(fmt.Sprintf("model: prefill keys are read-only in phases: %v", op))
			}
		}
		if op.K == CGetWithExpiration || op.K == CGetWithTTL {
			if present {
				return in.Wild || (out.Ok && out.Val == cur && out.Exp == 0 && (op.K == CGetWithExpiration || out.TTL == sentinelNoExp)), st
			}
			return in.Wild || (!out.Ok && out.Val == 0), st
		}
	}
	if in.Timed && in.Cache && i >= 0 {
		return linStepTimed(st, in, out)
	}
	w := in.Wild
	zeroOld := func() int64 {
		if present {
			return cur
		}
		return 0
	}
	if in.Pseudo {
		return present && cur == out.Val, st
	}
	if !in.Cache {
		switch op.K {
		case MLoad:
			if present {
				return w || (out.Ok && out.Val == cur), st
			}
			return w || (!out.Ok && out.Val == 0), st
		case MStore:
			st.V[i] = op.Val
			return true, st
		case MLoadOrStore:
			if present {
				return w || (out.Ok && out.Val == cur), st
			}
			st.V[i] = op.Val
			return w || (!out.Ok && out.Val == op.Val), st
		case MLoadAndStore:
			st.V[i] = op.Val
			if present {
				return w || (out.Ok && out.Val == cur), st
			}
			return w || !out.Ok, st // actual is left open by the documentation
		case MLoadOrCompute:
			if present {
				return w || (out.Ok && out.Val == cur), st
			}
			st.V[i] = op.Val
			return w || (!out.Ok && out.Val == op.Val), st
		case MCompute:
			if !computeObs(w, out, present, zeroOld()) {
				return false, st
			}
			nv, del := fnResult(op, zeroOld(), present)
			if del {
				st.V[i] = absent
				return w || !out.Ok, st // actual left open
			}
			st.V[i] = nv
			return w || (out.Ok && out.Val == nv), st
		case MLoadAndDelete:
			if present {
				st.V[i] = absent
				return w || (out.Ok && out.Val == cur), st
			}
			return w || (!out.Ok && out.Val == 0), st
		case MDelete:
			if i >= 0 {
				st.V[i] = absent
			}
			return true, st
		case MClear:
			for j := range st.V {
				st.V[j] = absent
			}
			st.Pre = false
			return true, st
		case XPrefillCount:
			if st.Pre {
				return out.N == op.N, st
			}
			return out.N == 0, st
		case XPass, MSize, MRange:
			return true, st
		}
		panic(fmt.Sprintf("model: unexpected map op %v", op))
	}
	// cache family, frozen clock: every stored entry is unexpired in the phase
	now, def := in.Now, in.Def
	switch op.K {
	case CSet:
		st.V[i], st.E[i] = op.Val, expiryOf(op.D, def, now)
		return true, st
	case CSetDefault:
		st.V[i], st.E[i] = op.Val, expiryOf(sentinelDefault, def, now)
		return true, st
	case CSetForever:
		st.V[i], st.E[i] = op.Val, 0
		return true, st
	case CGet:
		if present {
			return w || (out.Ok && out.Val == cur), st
		}
		return w || (!out.Ok && out.Val == 0), st
	case CGetWithExpiration:
		if present {
			return w || (out.Ok && out.Val == cur && out.Exp == st.E[i]), st
		}
		return w || (!out.Ok && out.Val == 0), st
	case CGetWithTTL:
		if present {
			want := sentinelNoExp
			if st.E[i] != 0 {
				want = st.E[i] - now
			}
			return w || (out.Ok && out.Val == cur && out.TTL == want), st
		}
		return w || (!out.Ok && out.Val == 0), st
	case CGetOrSet:
		if present {
			return w || (out.Ok && out.Val == cur), st
		}
		st.V[i], st.E[i] = op.Val, expiryOf(op.D, def, now)
		return w || (!out.Ok && out.Val == op.Val), st
	case CGetAndSet:
		st.V[i], st.E[i] = op.Val, expiryOf(op.D, def, now)
		if present {
			return w || (out.Ok && out.Val == cur), st
		}
		return w || (!out.Ok && out.Val == op.Val), st
	case CGetAndRefresh:
		if present {
			st.E[i] = expiryOf(op.D, def, now)
			return w || (out.Ok && out.Val == cur), st
		}
		return w || (!out.Ok && out.Val == 0), st
	case CGetOrCompute:
		if present {
			return w || (out.Ok && out.Val == cur), st
		}
		st.V[i], st.E[i] = op.Val, expiryOf(op.D, def, now)
		return w || (!out.Ok && out.Val == op.Val), st
	case CCompute:
		if !computeObs(w, out, present, zeroOld()) {
			return false, st
		}
		nv, del := fnResult(op, zeroOld(), present)
		if del {
			st.V[i], st.E[i] = absent, 0
			return w || !out.Ok, st
		}
		st.V[i], st.E[i] = nv, expiryOf(op.D, def, now)
		return w || (out.Ok && out.Val == nv), st
	case CGetAndDelete:
		if present {
			st.V[i], st.E[i] = absent, 0
			return w || (out.Ok && out.Val == cur), st
		}
		return w || (!out.Ok && out.Val == 0), st
	case CDelete:
		if i >= 0 {
			st.V[i], st.E[i] = absent, 0
		}
		return true, st
	case CClear:
		for j := range st.V {
			st.V[j], st.E[j], st.EH[j] = absent, 0, 0
		}
		st.Pre = false
		return true, st
	case XPrefillCount:
		if st.Pre {
			return out.N == op.N, st
		}
		return out.N == 0, st
	case CDeleteExpired, CCount, CRange, CItems, XPass, CDefaultExpiration, CSetCallback:
		return true, st
	}
	panic(fmt.Sprintf("model: unexpected cache op %v", op))
}

// linStepTimed is the specification of keyed cache calls while the clock
// ticks inside the phase. A call reads the clock at unknown points of its
// window [Now, NowHi]; an entry stored by a call expires at an instant in
// [Now+d, NowHi+d]. The result tells which way the call saw the entry (live or
// not); that must have been possible, and it narrows the state: an entry seen
// expired is gone for every later call (the clock does not run backwards), one
// seen live did not expire before the call began.
func linStepTimed(st linState, in linInput, out linOutput) (bool, linState) {
	op, i := in.Op, in.Slot
	lo, hi, def := in.Now, in.NowHi, in.Def
	if hi < lo {
		hi = lo
	}
	cur := st.V[i]
	present := cur != absent
	never := present && st.E[i] == 0
	canLive := present && (never || lo <= st.EH[i])
	canDead := !present || (!never && hi > st.E[i])
	store := func(v, d int64) {
		st.V[i], st.E[i], st.EH[i] = v, expiryOf(d, def, lo), expiryOf(d, def, hi)
	}
	kill := func() { st.V[i], st.E[i], st.EH[i] = absent, 0, 0 }
	sawLive := func() {
		if !never && lo > st.E[i] {
			st.E[i] = lo
		}
	}
	if in.Pseudo {
		ok := canLive && cur == out.Val
		sawLive()
		return ok, st
	}
	switch op.K {
	case CSet:
		store(op.Val, op.D)
		return true, st
	case CSetDefault:
		store(op.Val, sentinelDefault)
		return true, st
	case CSetForever:
		st.V[i], st.E[i], st.EH[i] = op.Val, 0, 0
		return true, st
	case CGet, CGetWithExpiration, CGetWithTTL:
		if !out.Ok {
			kill()
			return canDead && out.Val == 0, st
		}
		ok := canLive && out.Val == cur
		if ok {
			switch {
			case op.K == CGetWithExpiration && never:
				ok = out.Exp == 0
			case op.K == CGetWithExpiration:
				ok = out.Exp >= st.E[i] && out.Exp <= st.EH[i] && out.Exp >= lo
				st.E[i], st.EH[i] = out.Exp, out.Exp
			case op.K == CGetWithTTL && never:
				ok = out.TTL == sentinelNoExp
			case op.K == CGetWithTTL:
				// expiry minus a second clock reading
				ok = out.TTL >= st.E[i]-hi && out.TTL <= st.EH[i]-lo
			}
		}
		sawLive()
		return ok, st
	case CGetOrSet, CGetOrCompute:
		if out.Ok {
			sawLive()
			return canLive && out.Val == cur, st
		}
		store(op.Val, op.D)
		return canDead && out.Val == op.Val, st
	case CGetAndSet:
		ok := false
		if out.Ok {
			ok = canLive && out.Val == cur
		} else {
			ok = canDead && out.Val == op.Val
		}
		store(op.Val, op.D)
		return ok, st
	case CGetAndRefresh:
		if out.Ok {
			ok := canLive && out.Val == cur
			st.E[i], st.EH[i] = expiryOf(op.D, def, lo), expiryOf(op.D, def, hi)
			return ok, st
		}
		kill()
		return canDead && out.Val == 0, st
	case CCompute:
		if out.FnCalls < 1 {
			return false, st
		}
		ok := false
		old := int64(0)
		if out.FnLoaded {
			ok = canLive && out.FnOld == cur
			old = cur
		} else {
			ok = canDead && out.FnOld == 0
		}
		nv, del := fnResult(op, old, out.FnLoaded)
		if del {
			kill()
			return ok && !out.Ok, st
		}
		store(nv, op.D)
		return ok && out.Ok && out.Val == nv, st
	case CGetAndDelete:
		ok := false
		if out.Ok {
			ok = canLive && out.Val == cur
		} else {
			ok = canDead && out.Val == 0
		}
		kill()
		return ok, st
	case CDelete:
		kill()
		return true, st
	}
	panic(fmt.Sprintf("model: unexpected timed cache op %v", op))
}

// computeObs: what the Compute function observed must be the state at the
// linearization point. A pending call whose function has not run yet cannot
// have taken effect.
func computeObs(wild bool, out linOutput, present bool, old int64) bool {
	if wild {
		if out.FnCalls == 0 {
			return false
		}
		return out.FnLoaded == present && out.FnOld == old
	}
	return out.FnCalls >= 1 && out.FnLoaded == present && out.FnOld == old
}

// XPrefillCount is a driver-level read-out operation: how many of the prefill
// keys are found by Load/Get.
const XPrefillCount OpKind = 100

const prefillVal = 700000

func isPrefillKey(k int) bool { return k >= prefillBase && k < fillerBase }

func init() { opNames[XPrefillCount] = "PrefillCount" }

func linModel(init linState) porcupine.Model {
	return porcupine.Model{
		Init: func() interface{} { return init },
		Step: func(state, input, output interface{}) (bool, interface{}) {
			ok, ns := linStep(state.(linState), input.(linInput), output.(linOutput))
			return ok, ns
		},
		Equal: func(a, b interface{}) bool { return a.(linState) == b.(linState) },
		DescribeOperation: func(input, output interface{}) string {
			return fmt.Sprintf("%v -> %+v", input.(linInput).Op, output.(linOutput))
		},
	}
}

// linResult of one phase check.
type linResult struct {
	Ops     int
	Result  porcupine.CheckResult
	Skipped string
}

// checkLin checks the records of one phase (plus pseudo-loads from Range
// visits) against the model. Records that never returned (pending) may or may
// not have taken effect: both histories are tried.
func checkLin(recs []*Rec, init linState, slots map[int]int, cacheFam bool, now, def int64, maxSeq uint64, timeout time.Duration, preN int, timed ...bool) linResult {
	tm := len(timed) > 0 && timed[0] && cacheFam
	var base []porcupine.Operation
	var pend []porcupine.Operation
	client := 0
	clientOf := map[int]int{}
	inf := int64(maxSeq) + 10
	for _, r := range recs {
		switch r.Op.K {
		case MSize, CCount, XAdvance, XTick, XGC, CDeleteExpired, XPass, CDefaultExpiration, CSetCallback, CSetDefaultExpiration, XBulkInsert, XBulkDelete:
			continue
		}
		slot := -1
		needsSlot := r.Op.K != MClear && r.Op.K != CClear && r.Op.K != XPrefillCount && r.Op.K != MRange && r.Op.K != CRange && r.Op.K != CItems
		if needsSlot {
			if isPrefillKey(r.Op.Key) {
				slot = -2
			} else {
				s, ok := slots[r.Op.Key]
				if !ok {
					return linResult{Skipped: fmt.Sprintf("key %d has no slot", r.Op.Key)}
				}
				slot = s
			}
		}
		// nested operations (issued from a visitor/callback) belong to their
		// own client: they overlap the enclosing call's interval
		cid, ok := clientOf[r.Task]
		if !ok || r.Nested {
			cid = client
			client++
			if !r.Nested {
				clientOf[r.Task] = cid
			}
		}
		if r.Op.K == MRange || r.Op.K == CRange || r.Op.K == CItems {
			ret := int64(r.Ret)
			if r.Pending {
				ret = inf
			}
			for _, kv := range r.Visits {
				s, ok := slots[kv.K]
				if !ok {
					continue // prefill keys: not modelled individually
				}
				base = append(base, porcupine.Operation{
					ClientId: client, Call: int64(r.Call), Return: ret,
					Input:  timedIn(linInput{Op: Op{K: MLoad, Key: kv.K}, Slot: s, Pseudo: true, Cache: cacheFam, Now: now, Def: def}, r, tm),
					Output: linOutput{Val: kv.V, Ok: true},
				})
				client++
			}
			continue
		}
		in := timedIn(linInput{Op: r.Op, Slot: slot, Cache: cacheFam, Now: now, Def: def, PreN: preN}, r, tm)
		out := linOutput{Val: r.Val, Ok: r.Ok, Exp: r.Exp, TTL: r.TTL, N: r.N, FnCalls: r.FnCalls, FnOld: r.FnOld, FnLoaded: r.FnLoaded}
		if r.Pending {
			in.Wild = true
			pend = append(pend, porcupine.Operation{ClientId: cid, Call: int64(r.Call), Return: inf, Input: in, Output: out})
			continue
		}
		base = append(base, porcupine.Operation{ClientId: cid, Call: int64(r.Call), Return: int64(r.Ret), Input: in, Output: out})
	}
	if tm && len(pend) > 0 {
		return linResult{Skipped: "pending operations in a phase with a ticking clock"}
	}
	if len(pend) > 4 {
		return linResult{Skipped: "too many pending operations"}
	}
	if len(base)+len(pend) > 90 {
		return linResult{Skipped: "history too long for the linearizability search"}
	}
	model := linModel(init)
	res := linResult{Ops: len(base) + len(pend)}
	unknown := false
	for mask := 0; mask < 1<<uint(len(pend)); mask++ {
		h := append([]porcupine.Operation(nil), base...)
		for j, p := range pend {
			if mask&(1<<uint(j)) != 0 {
				h = append(h, p)
			}
		}
		r := porcupine.CheckOperationsTimeout(model, h, timeout)
		if r == porcupine.Ok {
			res.Result = porcupine.Ok
			return res
		}
		if r == porcupine.Unknown {
			unknown = true
		}
	}
	if unknown {
		res.Result = porcupine.Unknown
	} else {
		res.Result = porcupine.Illegal
	}
	return res
}

func timedIn(in linInput, r *Rec, timed bool) linInput {
	if timed {
		in.Timed, in.Now, in.NowHi = true, r.Now, r.NowRet
	}
	return in
}
