package main

import (
	"fmt"
	"sort"
)

// Sequential reference models (DESIGN §3.1, Appendix A).

type ttlEntry struct {
	v      int64
	e      int64
	phys   physState // physNone = live; otherwise expired and (un)touched
	approx bool      // now+d was not representable: the exact instant is not demanded (DESIGN C09)
}

// ttlModel: the visible view plus what can be said about physical presence of
// expired entries without looking inside the container.
type ttlModel struct {
	ent map[int]*ttlEntry
	def int64
	cb  int // id of the callback in force (0: none)
	now int64
	// configured cleanup interval (<= 0: no janitor)
	interval int64
	// statistics for non-triviality
	touchedExpired int
	boundaryHits   int
	approxStores   int
}

func newTTLModel(def int64, cb int, now int64) *ttlModel {
	if def < 1 {
		def = sentinelNoExp
	}
	return &ttlModel{ent: map[int]*ttlEntry{}, def: def, cb: cb, now: now}
}

func (m *ttlModel) vis(k int) (*ttlEntry, bool) {
	e, ok := m.ent[k]
	if !ok {
		return nil, false
	}
	if e.e != 0 && m.now > e.e {
		return e, false
	}
	return e, true
}

// setNow moves the model clock; entries whose instant has passed become
// expired-untouched.
func (m *ttlModel) setNow(now int64) {
	m.now = now
	for _, e := range m.ent {
		if e.e != 0 {
			if d := now - e.e; d >= -1 && d <= 1 {
				m.boundaryHits++
			}
			if now > e.e && e.phys == physNone {
				e.phys = physExpUntouched
			}
		}
	}
}

func (m *ttlModel) store(k int, v int64, d int64) {
	e := &ttlEntry{v: v, e: expiryOf(d, m.def, m.now)}
	dd := d
	if dd == sentinelDefault {
		dd = m.def
	}
	if dd > 0 && e.e == 0 {
		e.approx = true
		m.approxStores++
	}
	m.ent[k] = e
}

func (m *ttlModel) visibleSet() map[int]int64 {
	r := map[int]int64{}
	for k := range m.ent {
		if e, ok := m.vis(k); ok {
			r[k] = e.v
		}
	}
	return r
}

func (m *ttlModel) countBounds() (lo, hi int) {
	for k, e := range m.ent {
		if _, ok := m.vis(k); ok {
			lo++
			hi++
			continue
		}
		switch e.phys {
		case physExpUntouched:
			lo++
			hi++
		case physExpMaybe:
			hi++
		}
	}
	return
}

// touchExpired: a read-type call named an expired entry: it may have been
// removed lazily.
func (m *ttlModel) touchExpired(k int) {
	if e, ok := m.ent[k]; ok {
		if _, vis := m.vis(k); !vis {
			m.touchedExpired++
			e.phys = physExpMaybe
		}
	}
}

// seqCtx carries what the checker needs besides the model.
type seqCtx struct {
	m       *ttlModel
	recs    []*Rec
	reports []Report
	bad     []Violation
	// Count measured by the driver around removing calls: index by rec Ix
	cntBefore map[int]int
	cntAfter  map[int]int
	tree      *recTree
}

func (c *seqCtx) fail(rule string, f string, a ...interface{}) {
	c.bad = append(c.bad, Violation{Rule: rule, Phase: 0, Detail: fmt.Sprintf(f, a...)})
}

func (c *seqCtx) reportsIn(r *Rec) []Report {
	// reports are appended in Seq order
	lo := sort.Search(len(c.reports), func(i int) bool { return c.reports[i].Seq > r.Call })
	var out []Report
	for i := lo; i < len(c.reports); i++ {
		if r.Ret != 0 && c.reports[i].Seq >= r.Ret {
			break
		}
		out = append(out, c.reports[i])
	}
	return out
}

// recTree: the nesting structure of the records of one instance (a call issued
// from a visitor or callback lies inside the interval of the enclosing call).
// Built in one sweep; records are in invocation order.
type recTree struct {
	kids map[*Rec][]*Rec
	tops []*Rec
}

func buildTree(recs []*Rec) *recTree {
	t := &recTree{kids: map[*Rec][]*Rec{}}
	sorted := append([]*Rec(nil), recs...)
	sort.SliceStable(sorted, func(i, j int) bool { return sorted[i].Call < sorted[j].Call })
	var stack []*Rec
	for _, r := range sorted {
		for len(stack) > 0 {
			top := stack[len(stack)-1]
			if top.Ret != 0 && r.Call > top.Call && r.Ret != 0 && r.Ret < top.Ret {
				break
			}
			stack = stack[:len(stack)-1]
		}
		if len(stack) == 0 {
			t.tops = append(t.tops, r)
		} else {
			p := stack[len(stack)-1]
			t.kids[p] = append(t.kids[p], r)
		}
		stack = append(stack, r)
	}
	return t
}

// descendants: every record nested at any depth inside r.
func (t *recTree) descendants(r *Rec, out []*Rec) []*Rec {
	for _, k := range t.kids[r] {
		out = append(out, k)
		out = t.descendants(k, out)
	}
	return out
}

// checkCacheSeq checks a sequential run of one cache instance against the
// TTL model: the top-level records in order, nested ones (issued by visitors
// and callbacks) at the point of the enclosing call where they really ran.
func (c *seqCtx) checkTop() {
	c.tree = buildTree(c.recs)
	for _, r := range c.tree.tops {
		c.checkRec(r)
	}
}

func (c *seqCtx) expectReports(r *Rec, mustK map[int]int64, mayK map[int]int64) {
	c.expectReportsAt(r, mustK, mayK, nil)
}

// expectReportsAt: at != nil restricts the judgement to the reports fired at
// that virtual instant (one janitor pass of an advance).
func (c *seqCtx) expectReportsAt(r *Rec, mustK map[int]int64, mayK map[int]int64, at *int64) {
	got := c.reportsIn(r)
	if at != nil {
		var f []Report
		for _, rp := range got {
			if rp.Now == *at {
				f = append(f, rp)
			}
		}
		got = f
	}
	// reports produced by nested removing calls belong to those calls
	var own []Report
	desc := c.tree.descendants(r, nil)
	for _, rp := range got {
		nested := false
		for _, q := range desc {
			if rp.Seq > q.Call && rp.Seq < q.Ret {
				switch q.Op.K {
				case CDelete, CGetAndDelete, CDeleteExpired, XAdvance:
					nested = true
				}
			}
		}
		if !nested {
			own = append(own, rp)
		}
	}
	if c.m.cb == 0 {
		if len(own) != 0 {
			c.fail("ledger-no-callback", "no callback is installed but %d reports fired inside %s", len(own), r)
		}
		return
	}
	seen := map[int]bool{}
	for _, rp := range own {
		if rp.CB != c.m.cb {
			c.fail("ledger-wrong-callback", "report (k%d,v%d) went to callback #%d, the one in force is #%d: %s", rp.K, rp.V, rp.CB, c.m.cb, r)
		}
		if seen[rp.K] {
			c.fail("ledger-duplicate", "key k%d reported twice inside %s", rp.K, r)
		}
		seen[rp.K] = true
		if v, ok := mustK[rp.K]; ok {
			if v != rp.V {
				c.fail("ledger-phantom", "report (k%d,v%d) but the removed entry held v%d: %s", rp.K, rp.V, v, r)
			}
			continue
		}
		if v, ok := mayK[rp.K]; ok {
			if v != rp.V {
				c.fail("ledger-phantom", "report (k%d,v%d) but the removed entry held v%d: %s", rp.K, rp.V, v, r)
			}
			continue
		}
		c.fail("ledger-phantom", "report (k%d,v%d) for an entry this call cannot have removed: %s", rp.K, rp.V, r)
	}
	for k, v := range mustK {
		if !seen[k] {
			c.fail("ledger-missing", "entry (k%d,v%d) was removed by %s but not reported", k, v, r)
		}
	}
	// R6: #reports == Count delta
	if b, ok := c.cntBefore[r.Ix]; ok && at == nil {
		a := c.cntAfter[r.Ix]
		nestedEffects := len(desc) > 0
		if !nestedEffects && b-a != len(own) {
			c.fail("ledger-count", "%s lowered Count by %d (from %d to %d) but fired %d reports", r, b-a, b, a, len(own))
		}
	}
}

func (c *seqCtx) checkRec(r *Rec) {
	m := c.m
	op := r.Op
	k := op.Key
	if r.Op.K != XAdvance {
		if r.Now != m.now {
			m.setNow(r.Now)
		}
	}
	ent, vis := m.vis(k)
	if !keyedOp(op.K) {
		ent, vis = nil, false
	}
	var cur int64
	if vis {
		cur = ent.v
	}
	miss := func() {
		if r.Ok || r.Val != 0 {
			c.fail("model", "expected not-found, got (v%d,%v): %s", r.Val, r.Ok, r)
		}
	}
	hit := func(v int64) {
		if !r.Ok || r.Val != v {
			c.fail("model", "expected (v%d,true), got (v%d,%v): %s", v, r.Val, r.Ok, r)
		}
	}
	kids := c.tree.kids[r]
	runKids := func() {
		for _, q := range kids {
			c.checkRec(q)
		}
	}
	if op.K != CRange && op.K != CItems && op.K != CDelete && op.K != CGetAndDelete && op.K != CDeleteExpired && op.K != XAdvance && len(kids) > 0 {
		c.fail("ledger-wrong-call", "nested calls (from a callback or visitor) inside %s", r)
	}
	switch op.K {
	case CSet:
		m.store(k, op.Val, op.D)
	case CSetDefault:
		m.store(k, op.Val, sentinelDefault)
	case CSetForever:
		m.store(k, op.Val, sentinelNoExp)
	case CGet:
		if vis {
			hit(cur)
		} else {
			miss()
			m.touchExpired(k)
		}
	case CGetWithExpiration:
		if vis {
			hit(cur)
			if ent.approx {
				if r.Exp != 0 && r.Exp <= m.now {
					c.fail("expiry", "GetWithExpiration reported the past instant %d for an entry that cannot expire in representable time: %s", r.Exp, r)
				}
			} else if r.Exp != ent.e {
				c.fail("expiry", "GetWithExpiration reported %d, the entry expires at %d: %s", r.Exp, ent.e, r)
			}
		} else {
			miss()
			m.touchExpired(k)
		}
	case CGetWithTTL:
		if vis {
			hit(cur)
			want := sentinelNoExp
			if ent.e != 0 {
				want = ent.e - m.now
			}
			if ent.approx {
				if r.TTL != sentinelNoExp && r.TTL <= 0 {
					c.fail("expiry", "GetWithTTL reported %d for an entry that cannot expire in representable time: %s", r.TTL, r)
				}
			} else if r.TTL != want {
				c.fail("expiry", "GetWithTTL reported %d, want %d: %s", r.TTL, want, r)
			}
		} else {
			miss()
			m.touchExpired(k)
		}
	case CGetOrSet, CGetOrCompute:
		if vis {
			hit(cur)
			if op.K == CGetOrCompute && r.FnCalls != 0 {
				c.fail("fn-calls", "valueFn ran although a live value exists: %s", r)
			}
		} else {
			if r.Ok || r.Val != op.Val {
				c.fail("model", "expected (v%d,false), got (v%d,%v): %s", op.Val, r.Val, r.Ok, r)
			}
			if op.K == CGetOrCompute && r.FnCalls != 1 {
				c.fail("fn-calls", "valueFn ran %d times for a storing call: %s", r.FnCalls, r)
			}
			m.store(k, op.Val, op.D)
		}
	case CGetAndSet:
		if vis {
			hit(cur)
		} else if r.Ok || r.Val != op.Val {
			c.fail("model", "expected (v%d,false), got (v%d,%v): %s", op.Val, r.Val, r.Ok, r)
		}
		m.store(k, op.Val, op.D)
	case CGetAndRefresh:
		if vis {
			hit(cur)
			m.store(k, cur, op.D)
		} else {
			miss()
			m.touchExpired(k)
		}
	case CCompute:
		if r.FnCalls != 1 {
			c.fail("fn-calls", "Compute function ran %d times: %s", r.FnCalls, r)
		} else if r.FnLoaded != vis || (vis && r.FnOld != cur) || (!vis && r.FnOld != 0) {
			c.fail("model", "Compute function was handed (v%d,%v), the visible state is (v%d,%v): %s", r.FnOld, r.FnLoaded, cur, vis, r)
		}
		nv, del := fnResult(op, cur, vis)
		if del {
			if r.Ok {
				c.fail("model", "Compute with delete=true reported ok=true: %s", r)
			}
			if vis {
				delete(m.ent, k)
			} else {
				m.touchExpired(k)
			}
		} else {
			if !r.Ok || r.Val != nv {
				c.fail("model", "Compute expected (v%d,true), got (v%d,%v): %s", nv, r.Val, r.Ok, r)
			}
			m.store(k, nv, op.D)
		}
	case CGetAndDelete, CDelete:
		must, may := map[int]int64{}, map[int]int64{}
		if vis {
			must[k] = cur
		} else if ent != nil {
			if ent.phys == physExpUntouched {
				must[k] = ent.v
			} else {
				may[k] = ent.v
			}
		}
		if op.K == CGetAndDelete {
			if vis {
				hit(cur)
			} else {
				miss()
			}
		}
		delete(m.ent, k)
		runKids()
		c.expectReports(r, must, may)
		return
	case CDeleteExpired:
		must, may := m.removeExpired()
		runKids()
		c.expectReports(r, must, may)
		return
	case XAdvance:
		// clock moved; janitor passes (if any) ran to quiescence inside. With
		// recording-only callbacks nothing is written between the passes, so
		// together they remove exactly what is expired at the last pass; with
		// re-entrant callbacks the generator asks for a single pass.
		target := r.Now + op.D
		got := c.reportsIn(r)
		janitorRan := r.N > 0
		if janitorRan {
			// pass by pass: at each delivered tick the clock stood at that
			// instant while the pass ran and its callbacks (and whatever they
			// called) executed
			var last int64
			ranKid := map[*Rec]bool{}
			for i, t := range r.Ticks {
				if i > 0 && t == last {
					continue
				}
				last = t
				m.setNow(t)
				must, may := m.removeExpired()
				for _, q := range kids {
					if q.Now == t && !ranKid[q] {
						ranKid[q] = true
						c.checkRec(q)
					}
				}
				tt := t
				c.expectReportsAt(r, must, may, &tt)
			}
			for _, q := range kids {
				if !ranKid[q] {
					c.checkRec(q)
				}
			}
			if len(kids) == 0 {
				if b, ok := c.cntBefore[r.Ix]; ok {
					if n := len(c.reportsIn(r)); m.cb != 0 && b-c.cntAfter[r.Ix] != n {
						c.fail("ledger-count", "%s lowered Count by %d but fired %d reports", r, b-c.cntAfter[r.Ix], n)
					}
				}
			}
			m.setNow(target)
			if m.interval <= 0 {
				c.fail("janitor-config", "a janitor pass ran although the cleanup interval is %d: %s", m.interval, r)
			}
		} else {
			m.setNow(target)
			runKids()
			if len(got) != 0 {
				own := 0
				for _, rp := range got {
					if rp.OpIx < 0 {
						own++
					}
				}
				if own != 0 {
					c.fail("ledger-phantom", "reports fired during a clock advance without any janitor pass: %s", r)
				}
			}
			if b, ok := c.cntBefore[r.Ix]; ok && len(kids) == 0 && b != c.cntAfter[r.Ix] {
				c.fail("janitor-off", "Count changed from %d to %d during a clock advance although no janitor pass ran: %s", b, c.cntAfter[r.Ix], r)
			}
		}
		if m.interval > 0 {
			// bounded cleanup: an entry whose instant lies two intervals back
			// must have been removed by now without any user call
			for k, e := range m.ent {
				if e.e != 0 && e.phys == physExpUntouched && m.now-e.e >= 2*m.interval && m.now-e.e > 0 {
					c.fail("janitor-late", "entry (k%d,v%d) expired at %d is still uncleaned at %d although the cleanup interval is %d: %s", k, e.v, e.e, m.now, m.interval, r)
				}
			}
		}
		return
	case CClear:
		m.ent = map[int]*ttlEntry{}
		if n := len(c.reportsIn(r)); n != 0 {
			c.fail("ledger-wrong-call", "Clear fired %d reports", n)
		}
	case CCount:
		lo, hi := m.countBounds()
		if r.N < lo || r.N > hi {
			c.fail("size", "Count()=%d outside [%d,%d]: %s", r.N, lo, hi, r)
		}
	case CRange, CItems:
		c.checkRangeSeq(r, kids)
		return
	case CSetDefaultExpiration:
		m.def = op.D
	case CDefaultExpiration:
		want := m.def
		if want >= 1 || r.TTL >= 1 {
			if r.TTL != want {
				c.fail("expiry", "DefaultExpiration()=%d, want %d", r.TTL, want)
			}
		}
	case CSetCallback:
		m.cb = r.CBID
	case XBulkInsert:
		for i := 0; i < op.N; i++ {
			m.store(op.Key+i, op.Val+int64(i), op.D)
		}
	case XBulkDelete:
		for i := 0; i < op.N; i++ {
			delete(m.ent, op.Key+i)
		}
	case XPass, XGC:
	default:
		panic(fmt.Sprintf("model: unexpected op %v", op))
	}
	runKids()
	// a report inside any other call is illegal
	switch op.K {
	case CClear:
	default:
		if len(kids) == 0 {
			if n := len(c.reportsIn(r)); n != 0 {
				c.fail("ledger-wrong-call", "%d reports fired inside %s", n, r)
			}
		}
	}
}

// removeExpired removes every expired entry from the model: untouched ones
// must be reported, maybe-present ones may be.
func (m *ttlModel) removeExpired() (must, may map[int]int64) {
	must, may = map[int]int64{}, map[int]int64{}
	for k, e := range m.ent {
		if _, vis := m.vis(k); vis {
			continue
		}
		if e.phys == physExpUntouched {
			must[k] = e.v
		} else {
			may[k] = e.v
		}
		delete(m.ent, k)
	}
	return
}

// removeExpiredBetween: janitor passes ran at instants within [first,last]
// (both <= now). Entries expired at `first` must be gone; entries expired only
// at `last` must be gone as well (a pass ran at `last`); nothing that is
// unexpired at `last` may be removed.
func (m *ttlModel) removeExpiredBetween(first, last int64) (must, may map[int]int64) {
	must, may = map[int]int64{}, map[int]int64{}
	for k, e := range m.ent {
		if e.e == 0 || last <= e.e {
			continue // unexpired at the last pass
		}
		if e.phys == physExpMaybe {
			may[k] = e.v
		} else {
			must[k] = e.v
		}
		delete(m.ent, k)
	}
	return
}

// checkRangeSeq: with no mutation from inside the visitor the visit set is
// exactly the visible set (until the visitor stops); with a mutating visitor
// the per-key rules of DESIGN §3.3 apply with the nested calls as writers.
func (c *seqCtx) checkRangeSeq(r *Rec, kids []*Rec) {
	m := c.m
	op := r.Op
	if op.K == CRange && op.N == -1 {
		if len(r.Visits) != 0 {
			c.fail("range-nil", "Range(nil) visited entries")
		}
		return
	}
	before := m.visibleSet()
	for k := range m.ent {
		if _, vis := m.vis(k); !vis {
			// Range skips expired entries and does not remove them
		}
	}
	// nested calls change the model in their order
	for _, q := range kids {
		c.checkRec(q)
	}
	wrote, removed := effectsInside(c.tree.descendants(r, nil), before)
	seen := map[int]bool{}
	for _, kv := range r.Visits {
		if seen[kv.K] {
			c.fail("range-dup", "key k%d visited twice: %s", kv.K, r)
		}
		seen[kv.K] = true
		v0, was := before[kv.K]
		if was && v0 == kv.V {
			continue
		}
		if wrote[kv.K][kv.V] {
			continue
		}
		c.fail("range-phantom", "visited (k%d,v%d) which was not a live entry at any moment of the traversal: %s", kv.K, kv.V, r)
	}
	if op.Stop > 0 && len(r.Visits) > op.Stop {
		c.fail("range-stop", "visitor returned false after %d visits but was called %d times", op.Stop, len(r.Visits))
	}
	stopped := op.Stop > 0 && len(r.Visits) >= op.Stop
	if !stopped {
		for k, v := range before {
			if !seen[k] && !removed[k] {
				c.fail("range-missed", "live entry (k%d,v%d) was not visited: %s", k, v, r)
			}
		}
	} else if op.Stop > 0 && len(r.Visits) < op.Stop && len(kids) == 0 {
		// fewer live entries than the stop count: all must have been visited
	}
	if op.Stop > 0 && len(kids) == 0 && len(before) >= op.Stop && len(r.Visits) != op.Stop {
		c.fail("range-stop", "visitor stops after %d visits, %d live entries, but %d visits happened", op.Stop, len(before), len(r.Visits))
	}
}

// effectsInside: what the calls nested (at any depth) inside r wrote and
// removed; used to judge a traversal whose visitor mutates the container.
func effectsInside(desc []*Rec, before map[int]int64) (map[int]map[int64]bool, map[int]bool) {
	wrote := map[int]map[int64]bool{}
	removed := map[int]bool{}
	put := func(k int, v int64) {
		if wrote[k] == nil {
			wrote[k] = map[int64]bool{}
		}
		wrote[k][v] = true
	}
	for _, q := range desc {
		switch q.Op.K {
		case CSet, CSetDefault, CSetForever, CGetOrSet, CGetAndSet, CGetOrCompute, MStore, MLoadOrStore, MLoadAndStore, MLoadOrCompute:
			put(q.Op.Key, q.Op.Val)
		case CCompute, MCompute:
			nv, del := fnResult(q.Op, q.FnOld, q.FnLoaded)
			if del {
				removed[q.Op.Key] = true
			} else {
				put(q.Op.Key, nv)
			}
		case CDelete, CGetAndDelete, MDelete, MLoadAndDelete:
			removed[q.Op.Key] = true
		case CClear, MClear:
			for k := range before {
				removed[k] = true
			}
		case CDeleteExpired:
		}
	}
	return wrote, removed
}
