package main

import (
	"fmt"
	goruntime "runtime"
	"sort"
	gotime "time"
	"unsafe"

	"github.com/fufuok/cache/verifsim/simrt"
)

type OpKind int

const (
	// map family
	MLoad OpKind = iota + 1
	MStore
	MLoadOrStore
	MLoadAndStore
	MLoadOrCompute
	MCompute
	MLoadAndDelete
	MDelete
	MClear
	MRange
	MSize
	// cache family
	CSet
	CSetDefault
	CSetForever
	CGet
	CGetWithExpiration
	CGetWithTTL
	CGetOrSet
	CGetAndSet
	CGetAndRefresh
	CGetOrCompute
	CCompute
	CGetAndDelete
	CDelete
	CDeleteExpired
	CRange
	CItems
	CClear
	CCount
	CSetDefaultExpiration
	CDefaultExpiration
	CSetCallback
	// control
	XAdvance
	XBulkInsert
	XBulkDelete
	XPass // no-op step (keeps a task alive)
	XTick // concurrent phases (C06 only): the clock moves while calls are in flight
	XGC   // real garbage collections while the container is still referenced (C15)
)

var opNames = map[OpKind]string{
	MLoad: "Load", MStore: "Store", MLoadOrStore: "LoadOrStore", MLoadAndStore: "LoadAndStore",
	MLoadOrCompute: "LoadOrCompute", MCompute: "Compute", MLoadAndDelete: "LoadAndDelete", MDelete: "Delete",
	MClear: "Clear", MRange: "Range", MSize: "Size",
	CSet: "Set", CSetDefault: "SetDefault", CSetForever: "SetForever", CGet: "Get",
	CGetWithExpiration: "GetWithExpiration", CGetWithTTL: "GetWithTTL", CGetOrSet: "GetOrSet",
	CGetAndSet: "GetAndSet", CGetAndRefresh: "GetAndRefresh", CGetOrCompute: "GetOrCompute",
	CCompute: "CCompute", CGetAndDelete: "GetAndDelete", CDelete: "CDelete", CDeleteExpired: "DeleteExpired",
	CRange: "CRange", CItems: "Items", CClear: "CClear", CCount: "Count",
	CSetDefaultExpiration: "SetDefaultExpiration", CDefaultExpiration: "DefaultExpiration", CSetCallback: "SetEvictedCallback",
	XAdvance: "Advance", XBulkInsert: "BulkInsert", XBulkDelete: "BulkDelete", XPass: "Pass", XTick: "Tick", XGC: "GC",
}

func (k OpKind) String() string { return opNames[k] }

func (k OpKind) MarshalText() ([]byte, error) { return []byte(opNames[k]), nil }
func (k *OpKind) UnmarshalText(b []byte) error {
	for kk, n := range opNames {
		if n == string(b) {
			*k = kk
			return nil
		}
	}
	return fmt.Errorf("unknown op %q", b)
}

// FnKind: the catalogue of user functions given to Compute.
type FnKind int

const (
	FnStore          FnKind = iota // store op.Val
	FnDelete                       // delete
	FnDeleteIfLoaded               // delete if loaded, else store op.Val
	FnKeep                         // re-store the old value if loaded, else store op.Val
	FnInc                          // store old+1 (0+1 if not loaded)
	FnDeleteIfAbsent               // delete=true if not loaded (a no-op), else store op.Val
)

// VisitorKind: what a Range visitor does.
type VisitorKind int

const (
	VisPlain      VisitorKind = iota
	VisDeleteSelf             // delete the visited key
	VisStoreSelf              // overwrite the visited key
	VisInsertNew              // insert a fresh key per visit
	VisLoadOther              // read another key
	VisAll                    // call a mix of methods of the same container
	VisAdvance                // a slow visitor: the clock moves while the traversal is under way
	VisClear                  // the first visit clears the container
)

// Op is one generated operation.
type Op struct {
	K     OpKind      `json:"op"`
	Key   int         `json:"key,omitempty"`
	Val   int64       `json:"val,omitempty"`
	D     int64       `json:"d,omitempty"`    // TTL argument / advance amount / new default
	Fn    FnKind      `json:"fn,omitempty"`   // Compute function
	Stop  int         `json:"stop,omitempty"` // Range: stop after this many visits (0 = never)
	Vis   VisitorKind `json:"vis,omitempty"`
	N     int         `json:"n,omitempty"`     // bulk count / callback kind
	Park  bool        `json:"park,omitempty"`  // park (stall) inside the user function
	Slow  bool        `json:"slow,omitempty"`  // slow user function: frozen inside it until nobody else can move
	Other int         `json:"other,omitempty"` // the user function stores this many fresh keys into a second container (C13: calls into ANOTHER container are within the guarantee)
	Adv   int64       `json:"adv,omitempty"`   // the user function takes this long: the clock moves while it runs (sequential scenarios without a janitor)
}

func (o Op) String() string {
	s := fmt.Sprintf("%s(k%d", o.K, o.Key)
	if o.Val != 0 {
		s += fmt.Sprintf(",v%d", o.Val)
	}
	if o.D != 0 {
		s += fmt.Sprintf(",d=%d", o.D)
	}
	if o.K == MCompute || o.K == CCompute {
		s += fmt.Sprintf(",fn%d", o.Fn)
	}
	if o.K == MRange || o.K == CRange {
		s += fmt.Sprintf(",stop%d,vis%d", o.Stop, o.Vis)
	}
	if o.N != 0 {
		s += fmt.Sprintf(",n=%d", o.N)
	}
	if o.Park {
		s += ",park"
	}
	return s + ")"
}

type KV struct {
	K int   `json:"k"`
	V int64 `json:"v"`
}

// Report is one evicted-callback invocation.
type Report struct {
	CB   int    `json:"cb"` // id of the callback closure
	K    int    `json:"k"`
	V    int64  `json:"v"`
	Task int    `json:"task"`
	OpIx int    `json:"op_ix"` // index of the enclosing operation record (-1: none, e.g. janitor)
	Seq  uint64 `json:"seq"`
	Now  int64  `json:"now"` // virtual time of the report
}

// Rec is one executed operation with its result.
type Rec struct {
	Task     int     `json:"task"`
	Ix       int     `json:"ix"`
	Op       Op      `json:"op"`
	Call     uint64  `json:"call"`
	Ret      uint64  `json:"ret"`
	Pending  bool    `json:"pending,omitempty"`
	Val      int64   `json:"val"`
	Ok       bool    `json:"ok"`
	Exp      int64   `json:"exp,omitempty"`
	TTL      int64   `json:"ttl,omitempty"`
	FnCalls  int     `json:"fn_calls,omitempty"`
	FnOld    int64   `json:"fn_old,omitempty"`
	FnLoaded bool    `json:"fn_loaded,omitempty"`
	FnSeq    uint64  `json:"fn_seq,omitempty"`
	Visits   []KV    `json:"visits,omitempty"`
	N        int     `json:"n,omitempty"`
	Steps    int     `json:"steps,omitempty"`   // own synchronisation steps
	Waits    int     `json:"waits,omitempty"`   // times the caller joined a wait set
	Spins    int     `json:"spins,omitempty"`   // Gosched calls
	Now      int64   `json:"now,omitempty"`     // virtual time at call
	NowRet   int64   `json:"now_ret,omitempty"` // virtual time at return (differs only when the clock ticks inside a phase)
	Nested   bool    `json:"nested,omitempty"`
	CBID     int     `json:"cbid,omitempty"`  // callback id installed by this op
	Ticks    []int64 `json:"ticks,omitempty"` // Advance: the instants at which a janitor tick was delivered
}

func (r *Rec) String() string {
	p := ""
	if r.Pending {
		p = " PENDING"
	}
	s := fmt.Sprintf("t%d#%d [%d,%d]%s %s -> (v%d,%v)", r.Task, r.Ix, r.Call, r.Ret, p, r.Op, r.Val, r.Ok)
	if r.FnCalls > 0 {
		s += fmt.Sprintf(" fn×%d(old=v%d,loaded=%v)", r.FnCalls, r.FnOld, r.FnLoaded)
	}
	if r.Exp != 0 || r.TTL != 0 {
		s += fmt.Sprintf(" exp=%d ttl=%d", r.Exp, r.TTL)
	}
	if len(r.Visits) > 0 {
		s += fmt.Sprintf(" visits=%v", r.Visits)
	}
	if r.Op.K == MSize || r.Op.K == CCount {
		s += fmt.Sprintf(" n=%d", r.N)
	}
	return s
}

// World is the execution context shared by the tasks of one run.
type World struct {
	rearms    int    // re-arming callback invocations (CBKind 5)
	swapCB    bool   // re-entrant callbacks and visitors may also call SetEvictedCallback (C13 only: no ledger is kept)
	otherM    MapAPI // second container of the same kind (C13)
	otherC    CacheAPI
	otherSeq  int
	sim       *simrt.Sim
	m         MapAPI
	c         CacheAPI
	recs      []*Rec // all operation records in invocation order
	reports   []Report
	cbSeq     int
	curCB     int
	slowDone  bool  // the slow callback (kind 3) has stalled once
	cbAtCtor  int   // id of the callback installed at construction (0: none)
	defAtCtor int64 // default TTL in force after construction
}

func (w *World) seq() uint64 {
	if w.sim == nil {
		return 0
	}
	return w.sim.Seq
}

// Values and keys created by visitors and callbacks are functions of the
// visited pair only (not of the visiting order, which legitimately differs
// between bucket layouts), so that twin and sibling instances stay comparable.
func derivedVal(k int, v int64) int64 { return 1000000 + (v*31+int64(k))%8000000 }
func derivedKey(k int) int            { return freshBase + k%997 }

func (w *World) curTaskID() int {
	if t := simrt.CurTask(); t != nil {
		return t.ID
	}
	return -1
}

func yieldUser() { simrt.Yield(simrt.OpUser, unsafe.Pointer(nil)) }

// begin / end stamp an operation with event sequence numbers that are unique
// across tasks and consistent with real-time order.
func (w *World) begin(op Op, nested bool) *Rec {
	yieldUser()
	r := &Rec{Task: w.curTaskID(), Ix: len(w.recs), Op: op, Pending: true, Nested: nested}
	r.Call = w.seq()
	if w.sim != nil {
		r.Now = w.sim.Now()
	}
	if t := simrt.CurTask(); t != nil {
		t.OpSteps, t.OpWaits, t.OpSpins = 0, 0, 0
		if !nested {
			t.CallSteps = 0
			switch op.K {
			case XBulkInsert, XBulkDelete, XAdvance, XPrefillCount:
				t.CallSteps = -1 << 40 // many calls under one record: no per-call limit
			}
		}
	}
	w.recs = append(w.recs, r)
	return r
}

func (w *World) end(r *Rec) {
	if t := simrt.CurTask(); t != nil {
		r.Steps, r.Waits, r.Spins = t.OpSteps, t.OpWaits, t.OpSpins
	}
	yieldUser()
	r.Ret = w.seq()
	if w.sim != nil {
		r.NowRet = w.sim.Now()
	}
	r.Pending = false
}

// touchOther: a user function that writes to another container of the same
// kind (fresh keys, enough to make that container grow).
func (w *World) touchOther(n int) {
	for i := 0; i < n; i++ {
		w.otherSeq++
		k := 9000 + w.otherSeq
		if w.otherM != nil {
			w.otherM.Store(k, int64(k))
		} else if w.otherC != nil {
			w.otherC.Set(k, int64(k), sentinelNoExp)
		}
	}
}

// userFn builds the Compute function for an op; it records what it observed.
func (w *World) userFn(r *Rec) func(old int64, loaded bool) (int64, bool) {
	return func(old int64, loaded bool) (int64, bool) {
		r.FnCalls++
		r.FnOld, r.FnLoaded = old, loaded
		r.FnSeq = w.seq()
		if r.Op.Park {
			simrt.Park()
		}
		if r.Op.Slow {
			simrt.ParkResumable()
		}
		if r.Op.Other > 0 {
			w.touchOther(r.Op.Other)
		}
		if r.Op.Adv > 0 && w.sim != nil && w.sim.BackgroundTasks() == 0 {
			w.sim.Advance(r.Op.Adv, false, 0)
		}
		switch r.Op.Fn {
		case FnDelete:
			return 0, true
		case FnDeleteIfLoaded:
			if loaded {
				return 0, true
			}
			return r.Op.Val, false
		case FnKeep:
			if loaded {
				return old, false
			}
			return r.Op.Val, false
		case FnInc:
			if loaded {
				return old + 1, false
			}
			return 1, false
		case FnDeleteIfAbsent:
			if !loaded {
				return r.Op.Val, true
			}
			return r.Op.Val, false
		}
		return r.Op.Val, false
	}
}

func (w *World) valueFn(r *Rec) func() int64 {
	return func() int64 {
		r.FnCalls++
		r.FnSeq = w.seq()
		if r.Op.Park {
			simrt.Park()
		}
		if r.Op.Slow {
			simrt.ParkResumable()
		}
		if r.Op.Other > 0 {
			w.touchOther(r.Op.Other)
		}
		if r.Op.Adv > 0 && w.sim != nil && w.sim.BackgroundTasks() == 0 {
			w.sim.Advance(r.Op.Adv, false, 0)
		}
		return r.Op.Val
	}
}

// ExecMap executes one map-family operation and returns its record.
func (w *World) ExecMap(op Op, nested bool) *Rec {
	r := w.begin(op, nested)
	m := w.m
	switch op.K {
	case MLoad:
		r.Val, r.Ok = m.Load(op.Key)
	case MStore:
		m.Store(op.Key, op.Val)
	case MLoadOrStore:
		r.Val, r.Ok = m.LoadOrStore(op.Key, op.Val)
	case MLoadAndStore:
		r.Val, r.Ok = m.LoadAndStore(op.Key, op.Val)
	case MLoadOrCompute:
		r.Val, r.Ok = m.LoadOrCompute(op.Key, w.valueFn(r))
	case MCompute:
		r.Val, r.Ok = m.Compute(op.Key, w.userFn(r))
	case MLoadAndDelete:
		r.Val, r.Ok = m.LoadAndDelete(op.Key)
	case MDelete:
		m.Delete(op.Key)
	case MClear:
		m.Clear()
	case MSize:
		r.N = m.Size()
	case MRange:
		m.Range(w.visitor(r, true))
	case XBulkInsert:
		for i := 0; i < op.N; i++ {
			m.Store(op.Key+i, op.Val+int64(i))
		}
	case XBulkDelete:
		for i := 0; i < op.N; i++ {
			m.Delete(op.Key + i)
		}
	case XPass:
	default:
		panic(fmt.Sprintf("driver: not a map op: %v", op))
	}
	w.end(r)
	return r
}

// visitor builds a Range visitor that records visits and optionally mutates
// the same container (nested operations are recorded like any other).
func (w *World) visitor(r *Rec, isMap bool) func(k int, v int64) bool {
	return func(k int, v int64) bool {
		r.Visits = append(r.Visits, KV{k, v})
		vis := r.Op.Vis
		if k >= prefillBase && k < fillerBase && (vis == VisDeleteSelf || vis == VisStoreSelf) {
			vis = VisPlain // the prefill block is modelled as a whole; visitors leave it alone
		}
		switch vis {
		case VisDeleteSelf:
			if isMap {
				w.ExecMap(Op{K: MDelete, Key: k}, true)
			} else {
				w.ExecCache(Op{K: CDelete, Key: k}, true)
			}
		case VisStoreSelf:
			if isMap {
				w.ExecMap(Op{K: MStore, Key: k, Val: derivedVal(k, v)}, true)
			} else {
				w.ExecCache(Op{K: CSet, Key: k, Val: derivedVal(k, v), D: r.Op.D}, true)
			}
		case VisInsertNew:
			if len(r.Visits) > 3 {
				break // a few fresh keys per traversal are enough
			}
			if isMap {
				w.ExecMap(Op{K: MStore, Key: derivedKey(k), Val: derivedVal(k, v)}, true)
			} else {
				w.ExecCache(Op{K: CSet, Key: derivedKey(k), Val: derivedVal(k, v), D: r.Op.D}, true)
			}
		case VisLoadOther:
			if len(r.Visits) > 8 {
				break // a few nested reads per traversal are enough
			}
			if isMap {
				w.ExecMap(Op{K: MLoad, Key: r.Op.Key}, true)
			} else {
				w.ExecCache(Op{K: CGet, Key: r.Op.Key}, true)
			}
		case VisAll:
			if len(r.Visits) <= 8 {
				w.reenterAll(isMap, k, v)
			}
		case VisClear:
			if len(r.Visits) == 1 {
				if isMap {
					w.ExecMap(Op{K: MClear}, true)
				} else {
					w.ExecCache(Op{K: CClear}, true)
				}
			}
		case VisAdvance:
			if !isMap && w.sim != nil && w.sim.BackgroundTasks() == 0 {
				w.sim.Advance(1+r.Op.D%7, false, 0) // only without a janitor: nothing else may run meanwhile
			}
		}
		if r.Op.Stop > 0 && len(r.Visits) >= r.Op.Stop {
			return false
		}
		return true
	}
}

// reenterAll calls a rotating selection of methods of the same container from
// inside a visitor or callback (C13 re-entrancy).
func (w *World) reenterAll(isMap bool, k int, v int64) {
	n := int((v + int64(k)) % 1000)
	if isMap {
		switch n % 6 {
		case 0:
			w.ExecMap(Op{K: MLoad, Key: k}, true)
		case 1:
			w.ExecMap(Op{K: MStore, Key: k, Val: derivedVal(k, v)}, true)
		case 2:
			w.ExecMap(Op{K: MCompute, Key: k, Fn: FnDelete}, true)
		case 3:
			w.ExecMap(Op{K: MLoadOrStore, Key: derivedKey(k), Val: derivedVal(k, v)}, true)
		case 4:
			w.ExecMap(Op{K: MSize}, true)
		case 5:
			w.ExecMap(Op{K: MRange, Stop: 2}, true)
		}
		return
	}
	if w.swapCB && n%11 == 10 {
		// a callback (or visitor) that swaps the evicted callback of its own cache
		w.ExecCache(Op{K: CSetCallback, N: 2}, true)
		return
	}
	switch n % 8 {
	case 0:
		w.ExecCache(Op{K: CGet, Key: k}, true)
	case 1:
		w.ExecCache(Op{K: CSet, Key: k, Val: derivedVal(k, v), D: 1000}, true)
	case 2:
		w.ExecCache(Op{K: CDelete, Key: k}, true)
	case 3:
		w.ExecCache(Op{K: CGetOrSet, Key: derivedKey(k), Val: derivedVal(k, v)}, true)
	case 4:
		w.ExecCache(Op{K: CCount}, true)
	case 5:
		w.ExecCache(Op{K: CRange, Stop: 2}, true)
	case 6:
		w.ExecCache(Op{K: CDeleteExpired}, true)
	case 7:
		w.ExecCache(Op{K: CCompute, Key: k, Fn: FnDelete}, true)
	}
}

// callback builds an evicted-callback closure with a fresh id.
func (w *World) callback(kind int) (func(k int, v int64), int) {
	w.cbSeq++
	id := w.cbSeq
	return func(k int, v int64) {
		yieldUser()
		opIx := -1
		tid := w.curTaskID()
		// enclosing operation: the innermost pending record of this task
		for i := len(w.recs) - 1; i >= 0; i-- {
			if w.recs[i].Task == tid && w.recs[i].Pending {
				opIx = i
				break
			}
		}
		w.reports = append(w.reports, Report{CB: id, K: k, V: v, Task: tid, OpIx: opIx, Seq: w.seq(), Now: w.sim.Now()})
		if kind == 3 && !w.slowDone {
			// a slow callback: the caller is frozen here until nobody else can move
			w.slowDone = true
			simrt.ParkResumable()
		}
		if kind == 2 {
			w.reenterAll(false, k, v)
		}
		if kind == 6 {
			// a callback that looks at the whole cache (what it sees must be judged
			// by the clock of its own traversal, not by the pass that fired it)
			w.ExecCache(Op{K: CRange}, true)
			if v%2 == 0 {
				w.ExecCache(Op{K: CItems}, true)
			}
		}
		if kind == 5 {
			// re-arm: the evicted entry is stored again with a TTL of one nanosecond
			w.rearms++
			w.ExecCache(Op{K: CSet, Key: k, Val: derivedVal(k, v), D: 1}, true)
		}
		if kind == 4 {
			// observer: looks at the cache from inside the callback without changing it
			w.ExecCache(Op{K: CCount}, true)
			w.ExecCache(Op{K: CGetWithExpiration, Key: k}, true)
		}
	}, id
}

// ExecCache executes one cache-family operation.
func (w *World) ExecCache(op Op, nested bool) *Rec {
	if op.K == XAdvance {
		// the clock is moved by the running task; janitor passes triggered by
		// the ticks run to quiescence before the next client call
		r := &Rec{Task: w.curTaskID(), Ix: len(w.recs), Op: op, Call: w.seq(), Now: w.sim.Now()}
		w.recs = append(w.recs, r)
		mt := op.N
		if mt <= 0 {
			mt = 3
		}
		w.sim.Advance(op.D, true, mt)
		r.Ret = w.seq()
		return r
	}
	if op.K == XGC {
		// a cache that is still referenced must keep working across collections
		// (a finalizer attached to the wrong object would stop the janitor here)
		r := &Rec{Task: w.curTaskID(), Ix: len(w.recs), Op: op, Call: w.seq(), Now: w.sim.Now()}
		w.recs = append(w.recs, r)
		for i := 0; i < 3; i++ {
			goruntime.GC()
			gotime.Sleep(150 * gotime.Microsecond)
		}
		w.sim.Pump()
		yieldUser()
		simrt.Settle()
		r.Ret = w.seq()
		return r
	}
	if op.K == XTick {
		yieldUser()
		r := &Rec{Task: w.curTaskID(), Ix: len(w.recs), Op: op, Call: w.seq(), Now: w.sim.Now()}
		w.recs = append(w.recs, r)
		w.sim.Advance(op.D, false, 0) // no settling: everybody keeps running
		yieldUser()
		r.Ret = w.seq()
		return r
	}
	if op.K == XBulkDelete && !isPrefillKey(op.Key) {
		// a bulk delete of ordinary keys is a series of Delete calls, each
		// with its own record (callbacks may fire inside each of them)
		var last *Rec
		for i := 0; i < op.N; i++ {
			last = w.ExecCache(Op{K: CDelete, Key: op.Key + i}, nested)
		}
		return last
	}
	r := w.begin(op, nested)
	c := w.c
	switch op.K {
	case CSet:
		c.Set(op.Key, op.Val, op.D)
	case CSetDefault:
		c.SetDefault(op.Key, op.Val)
	case CSetForever:
		c.SetForever(op.Key, op.Val)
	case CGet:
		r.Val, r.Ok = c.Get(op.Key)
	case CGetWithExpiration:
		r.Val, r.Exp, r.Ok = c.GetWithExpiration(op.Key)
	case CGetWithTTL:
		r.Val, r.TTL, r.Ok = c.GetWithTTL(op.Key)
	case CGetOrSet:
		r.Val, r.Ok = c.GetOrSet(op.Key, op.Val, op.D)
	case CGetAndSet:
		r.Val, r.Ok = c.GetAndSet(op.Key, op.Val, op.D)
	case CGetAndRefresh:
		r.Val, r.Ok = c.GetAndRefresh(op.Key, op.D)
	case CGetOrCompute:
		r.Val, r.Ok = c.GetOrCompute(op.Key, w.valueFn(r), op.D)
	case CCompute:
		r.Val, r.Ok = c.Compute(op.Key, w.userFn(r), op.D)
	case CGetAndDelete:
		r.Val, r.Ok = c.GetAndDelete(op.Key)
	case CDelete:
		c.Delete(op.Key)
	case CDeleteExpired:
		c.DeleteExpired()
	case CRange:
		if op.N == -1 {
			c.RangeNil()
		} else {
			c.Range(w.visitor(r, false))
		}
	case CItems:
		items := c.Items()
		for k, v := range items {
			r.Visits = append(r.Visits, KV{k, v})
		}
		sort.Slice(r.Visits, func(i, j int) bool { return r.Visits[i].K < r.Visits[j].K })
	case CClear:
		c.Clear()
	case CCount:
		r.N = c.Count()
	case CSetDefaultExpiration:
		c.SetDefaultExpiration(op.D)
	case CDefaultExpiration:
		r.TTL = c.DefaultExpiration()
		if op.N == 1 {
			c.HasCallback() // the EvictedCallback() getter
		}
	case CSetCallback:
		if op.N == 0 {
			c.SetEvictedCallback(nil)
			r.CBID = 0
		} else {
			f, id := w.callback(op.N)
			r.CBID = id
			c.SetEvictedCallback(f)
		}
	case XBulkInsert:
		for i := 0; i < op.N; i++ {
			c.Set(op.Key+i, op.Val+int64(i), op.D)
		}
	case XBulkDelete:
		for i := 0; i < op.N; i++ {
			c.Delete(op.Key + i)
		}
	case XPass:
	default:
		panic(fmt.Sprintf("driver: not a cache op: %v", op))
	}
	w.end(r)
	return r
}
