package main

import "github.com/fufuok/cache/verifsim/simrt"

func simrtRNG(seed uint64) *simrt.RNG { return simrt.NewRNG(seed, 0xC0FFEE) }

func concProp(id string, quick, thorough int, rule string) {
	register(&PropDef{
		ID:   id,
		Gen:  func(seed uint64, tier string) *Case { return &Case{Conc: genConc(id, seed, tier)} },
		Runs: map[string]int{"quick": quick, "thorough": thorough},
		Rule: rule,
	})
}

const concRule = "one case = one generated scenario (container kind, hash mode, table knobs, prefill, set-up, 1-3 phases of 2-4 tasks x 1-8 operations, strategy, delay/stall faults) executed under the seeded scheduler; distinct = distinct hash of the full event trace (task, operation kind, address ordinal at every synchronisation step); non-trivial = at least two operations of different tasks overlapped in the phase (a context switch landed between the first and last step of an operation)"

func init() {
	concProp("C02", 300000, 300000, concRule+"; oracle: porcupine against the TTL-map model (frozen clock; in 30% of the phases a task ticks the clock by nanoseconds and the timed model applies) + sequential read-out")
	concProp("C03", 300000, 300000, concRule+"; oracle: porcupine against map[string]interface{} + sequential read-out")
	concProp("C04", 300000, 300000, concRule+"; oracle: porcupine against map[K]V + sequential read-out; key types int, string, struct, any; default and adversarial hashers")
	concProp("C05", 250000, 250000, concRule+"; workloads: racers on one key / increment chains; oracle: exactly-one-winner, user-function call counts, distinct contiguous old values")
	concProp("C06", 200000, 200000, concRule+"; oracle: evicted-callback ledger rules R1-R5")
	concProp("C07", 150000, 150000, concRule+"; oracle: traversal rules (no duplicate, early stop, stably-present keys visited, visits linearizable as loads)")
	concProp("C08", 250000, 250000, concRule+"; oracle: Size/Count vs Range visits vs keys found at every quiescent point; leftovers of completed DeleteExpired and Clear calls")
	concProp("C13", 300000, 300000, concRule+"; oracle: scheduler deadlock / livelock proofs / per-call step bound; 12% of cache cases under a running clock")
	concProp("C16", 300000, 300000, concRule+"; fault: a victim writer is frozen for the rest of the run; oracle: readers return without joining a wait set, within a linear bound of own steps, results linearizable with the victim pending")
}

func seqOrConc(id string, seqShare float64, seqGen func(seed uint64, tier string) *SeqScenario) func(seed uint64, tier string) *Case {
	return func(seed uint64, tier string) *Case {
		r := simrtRNG(seed)
		if r.Float64() < seqShare {
			return &Case{Seq: seqGen(seed, tier)}
		}
		return &Case{Conc: genConc(id, seed, tier)}
	}
}

const seqRule = "one case = one generated call sequence (5-60 calls quick, up to 300 thorough; whole API; TTL arguments from boundary values and sentinels; clock advances of 0, 1 ns, exactly to e-1/e/e+1 of a stored entry, small, large) executed by one client task with the janitor as a background task under the virtual clock, checked call by call against the reference model of DESIGN Appendix A; distinct = distinct event-trace hash; non-trivial = some call touched an expired-uncleaned entry or a clock advance landed within 1 ns of an expiration instant"

func init() {
	register(&PropDef{ID: "C01", Runs: map[string]int{"quick": 300000, "thorough": 300000}, Rule: seqRule,
		Gen: func(seed uint64, tier string) *Case { return &Case{Seq: genSeqCache("C01", seed, tier, CacheKinds)} }})
	register(&PropDef{ID: "C09", Runs: map[string]int{"quick": 300000, "thorough": 300000}, Rule: seqRule + "; C09: TTL and default-TTL arguments additionally drawn from all int64 values; oracle: exact reported instants and remaining TTLs; 12% of cases are concurrent phases (default TTL changed while entries are stored with it; the stored instant must follow a default in force during the call)",
		Gen: func(seed uint64, tier string) *Case { return &Case{Seq: genSeqCache("C09", seed, tier, CacheKinds)} }})
	register(&PropDef{ID: "C12", Runs: map[string]int{"quick": 150000, "thorough": 150000}, Rule: "one case = one generated call sequence driven into both twins (Cache and CacheOf[string,any], or Map and MapOf[string,any]) in one simulated world (one virtual clock, same tick instants); every return value, callback report (multiset per call), traversal set and count is compared pairwise; distinct = distinct event-trace hash; non-trivial = at least one eviction report or janitor tick (caches) or one table resize (maps)",
		Gen: func(seed uint64, tier string) *Case { return &Case{Seq: genTwin(seed, tier)} }})
	register(&PropDef{ID: "C11", Runs: map[string]int{"quick": 100000, "thorough": 100000}, Rule: "one case = one generated call sequence (point operations + bulk inserts/deletes crossing grow and shrink thresholds) driven into a builtin-map reference and two sibling instances that differ in presize/MinCapacity, table-seed stream, hash mode, min-table-length knob and a prior fill-and-Clear; every return value is compared with the reference and between the siblings; distinct = distinct event-trace hash; non-trivial = at least one grow or shrink happened",
		Gen: func(seed uint64, tier string) *Case { return &Case{Seq: genSibling(seed, tier)} }})
	// properties decided on both sequential and concurrent scenarios
	props["C06"].Gen = seqOrConc("C06", 0.4, func(seed uint64, tier string) *SeqScenario { return genSeqCache("C06", seed, tier, CacheKinds) })
	props["C09"].Gen = seqOrConc("C09", 0.88, func(seed uint64, tier string) *SeqScenario { return genSeqCache("C09", seed, tier, CacheKinds) })
	props["C07"].Gen = seqOrConc("C07", 0.3, func(seed uint64, tier string) *SeqScenario {
		if simrtRNG(seed ^ 0x77).Bool(0.5) {
			return genSeqCache("C07", seed, tier, CacheKinds)
		}
		return genSeqMap("C07", seed, tier, MapKinds[:5])
	})
	props["C08"].Gen = seqOrConc("C08", 0.3, func(seed uint64, tier string) *SeqScenario {
		if simrtRNG(seed ^ 0x77).Bool(0.5) {
			return genSeqCache("C08", seed, tier, CacheKinds)
		}
		return genSeqMap("C08", seed, tier, MapKinds[:5])
	})
}

func init() {
	register(&PropDef{ID: "C10", Runs: map[string]int{"quick": 400000, "thorough": 400000},
		Rule: "one case = one key type of a 46-type catalogue (every comparable kind, structs with padding / blank / interface / nested fields, any and a non-empty interface holding each of them and nil) with a pool of equal-but-differently-built values, a random call sequence on MapOf[K,int64] or CacheOf[K,int64] mirrored on a builtin map[K]int64, under simulator-chosen table seeds, min table length and hash mode (native / deterministic / forced collisions), pointees mutated in between; distinct = distinct event-trace hash; every case is non-trivial (the pools always contain equal-but-differently-built keys)",
		Gen:  genKeys})
	register(&PropDef{ID: "C15", Runs: map[string]int{"quick": 150000, "thorough": 150000},
		Rule: "(a) one case = a cache built by a random constructor variant with interval in {negative, 0, 1 ns .. 1 h}, entries with various TTLs, then only clock advances and Count() polls (no call names a key): checked against the TTL model (janitor passes remove and report exactly the expired entries; no pass and no Count change when interval <= 0; nothing uncleaned two intervals after its instant); (b) 1% of cases: n caches are created, filled with finalizer-carrying payloads and dropped, then real GC rounds alternate with scheduler pumps until every janitor task has ended and every payload was collected (bound 30 s); distinct = distinct event-trace hash; non-trivial = a clock advance landed within 1 ns of an expiration instant or an expired entry was touched, all (b) cases",
		Gen: func(seed uint64, tier string) *Case {
			r := simrtRNG(seed ^ 0xC15)
			if r.Float64() < 0.01 {
				return &Case{Special: &SpecialCase{Kind: "gc", Seed: seed, NonReplayable: true, Caches: 1 + r.Intn(6)}}
			}
			return &Case{Seq: genSeqCache("C15", seed, tier, CacheKinds)}
		}})
	register(&PropDef{ID: "C14", Runs: map[string]int{"quick": 100000, "thorough": 100000},
		Rule: concRule + "; built with -race; values are pointers to structs initialised by plain writes just before the store and read field by field (checksum) by every task that obtains them; 2-8 tasks; 30% with two containers; 0.4% of cases are caches dropped and collected by real GC rounds while their janitors tick; oracle: zero race reports whose stacks include the code under test or the payload accessors, intact payloads",
		Gen: func(seed uint64, tier string) *Case {
			r := simrtRNG(seed ^ 0xC14)
			if r.Float64() < 0.004 {
				// caches dropped and collected while their janitors tick: the finalizer
				// goroutine and the janitor must be ordered by synchronisation
				return &Case{Special: &SpecialCase{Kind: "gc", Seed: seed, NonReplayable: true, Race: true, Caches: 1 + r.Intn(4)}}
			}
			return &Case{Conc: genConc("C14", seed, tier)}
		}})
}
