package main

func concProp(id string, quick, thorough int, rule string) {
	register(&PropDef{
		ID:   id,
		Gen:  func(seed uint64, tier string) *Case { return &Case{Conc: genConc(id, seed, tier)} },
		Runs: map[string]int{"quick": quick, "thorough": thorough},
		Rule: rule,
	})
}

const concRule = "one case = one generated scenario (container kind, hash mode, table knobs, prefill, set-up, 1-3 phases of 2-4 tasks x 1-8 operations, strategy, delay/stall faults) executed under the seeded scheduler; distinct = distinct hash of the full event trace (task, operation kind, address ordinal at every synchronisation step); non-trivial = at least two operations of different tasks overlapped in the phase (a context switch landed between the first and last step of an operation)"

func init() {
	concProp("C02", 60000, 60000, concRule+"; oracle: porcupine against the frozen-clock TTL-map model + sequential read-out")
	concProp("C03", 80000, 80000, concRule+"; oracle: porcupine against map[string]interface{} + sequential read-out")
	concProp("C04", 80000, 80000, concRule+"; oracle: porcupine against map[K]V + sequential read-out; key types int, string, struct, any; default and adversarial hashers")
	concProp("C05", 60000, 60000, concRule+"; workloads: racers on one key / increment chains; oracle: exactly-one-winner, user-function call counts, distinct contiguous old values")
	concProp("C06", 60000, 60000, concRule+"; oracle: evicted-callback ledger rules R1-R5")
	concProp("C07", 60000, 60000, concRule+"; oracle: traversal rules (no duplicate, early stop, stably-present keys visited, visits linearizable as loads)")
	concProp("C08", 80000, 80000, concRule+"; oracle: Size/Count vs Range visits vs keys found at every quiescent point")
	concProp("C13", 80000, 80000, concRule+"; oracle: scheduler deadlock / livelock proof")
	concProp("C16", 60000, 60000, concRule+"; fault: a victim writer is frozen for the rest of the run; oracle: readers return without joining a wait set, within a linear bound of own steps, results linearizable with the victim pending")
}
