package main

import (
	"fmt"
	"os"

	"github.com/fufuok/cache/verifsim/bridge"
	"github.com/fufuok/cache/verifsim/simrt"
)

// C14: the same concurrent scenarios, executed by a lean path that keeps no
// shared records (so that the only unsynchronised accesses the race detector
// can see are those of the code under test and of the payload accessors).

func leanMap(m MapAPI, op Op) {
	switch op.K {
	case MLoad:
		m.Load(op.Key)
	case MStore:
		m.Store(op.Key, op.Val)
	case MLoadOrStore:
		m.LoadOrStore(op.Key, op.Val)
	case MLoadAndStore:
		m.LoadAndStore(op.Key, op.Val)
	case MLoadOrCompute:
		m.LoadOrCompute(op.Key, func() int64 { return op.Val })
	case MCompute:
		m.Compute(op.Key, func(old int64, loaded bool) (int64, bool) { return fnResult(op, old, loaded) })
	case MLoadAndDelete:
		m.LoadAndDelete(op.Key)
	case MDelete:
		m.Delete(op.Key)
	case MClear:
		m.Clear()
	case MSize:
		m.Size()
	case MRange:
		n := 0
		m.Range(func(k int, v int64) bool {
			n++
			switch op.Vis {
			case VisDeleteSelf:
				if !isPrefillKey(k) {
					m.Delete(k)
				}
			case VisStoreSelf:
				if !isPrefillKey(k) {
					m.Store(k, derivedVal(k, v))
				}
			case VisLoadOther:
				m.Load(op.Key)
			}
			return op.Stop == 0 || n < op.Stop
		})
	case XBulkInsert:
		for i := 0; i < op.N; i++ {
			m.Store(op.Key+i, op.Val+int64(i))
		}
	case XBulkDelete:
		for i := 0; i < op.N; i++ {
			m.Delete(op.Key + i)
		}
	}
}

func leanCache(c CacheAPI, op Op) {
	switch op.K {
	case CSet:
		c.Set(op.Key, op.Val, op.D)
	case CSetDefault:
		c.SetDefault(op.Key, op.Val)
	case CSetForever:
		c.SetForever(op.Key, op.Val)
	case CGet:
		c.Get(op.Key)
	case CGetWithExpiration:
		c.GetWithExpiration(op.Key)
	case CGetWithTTL:
		c.GetWithTTL(op.Key)
	case CGetOrSet:
		c.GetOrSet(op.Key, op.Val, op.D)
	case CGetAndSet:
		c.GetAndSet(op.Key, op.Val, op.D)
	case CGetAndRefresh:
		c.GetAndRefresh(op.Key, op.D)
	case CGetOrCompute:
		c.GetOrCompute(op.Key, func() int64 { return op.Val }, op.D)
	case CCompute:
		c.Compute(op.Key, func(old int64, loaded bool) (int64, bool) { return fnResult(op, old, loaded) }, op.D)
	case CGetAndDelete:
		c.GetAndDelete(op.Key)
	case CDelete:
		c.Delete(op.Key)
	case CDeleteExpired:
		c.DeleteExpired()
	case CRange:
		n := 0
		c.Range(func(k int, v int64) bool {
			n++
			if op.Vis == VisDeleteSelf && !isPrefillKey(k) {
				c.Delete(k)
			}
			return op.Stop == 0 || n < op.Stop
		})
	case CItems:
		c.Items()
	case CClear:
		c.Clear()
	case CCount:
		c.Count()
	case CSetDefaultExpiration:
		c.SetDefaultExpiration(op.D)
	case CDefaultExpiration:
		c.DefaultExpiration()
		if op.N == 1 {
			c.HasCallback()
		}
	case CSetCallback:
		if op.N == 0 {
			c.SetEvictedCallback(nil)
		} else {
			c.SetEvictedCallback(func(int, int64) {})
		}
	case XBulkInsert:
		for i := 0; i < op.N; i++ {
			c.Set(op.Key+i, op.Val+int64(i), op.D)
		}
	case XBulkDelete:
		for i := 0; i < op.N; i++ {
			c.Delete(op.Key + i)
		}
	}
}

var raceLogSize int64

// raceLogGrew reports whether the detector wrote a new report since the last
// call (GORACE log_path=<prefix> writes to <prefix>.<pid>).
func raceLogGrew() bool {
	p := os.Getenv("VERIF_RACELOG")
	if p == "" {
		return false
	}
	fi, err := os.Stat(fmt.Sprintf("%s.%d", p, os.Getpid()))
	if err != nil {
		return false
	}
	grew := fi.Size() > raceLogSize
	raceLogSize = fi.Size()
	return grew
}

// RunRace executes a concurrent scenario under the race detector.
func RunRace(sc *ConcScenario) *ConcResult {
	res := &ConcResult{Probes: map[string]int{}}
	setHash(sc.HashMode, sc.CollideN, sc.TableSeed)
	ml := sc.MinLen
	if ml <= 0 {
		ml = 32
	}
	bridge.SetMinTableLen(ml)
	defer bridge.SetMinTableLen(32)
	if sc.MinCap > 0 {
		bridge.SetMinCapacity(sc.MinCap)
		defer bridge.SetMinCapacity(96)
	}
	payloadMode = true
	budget := uint64(400000)
	for _, op := range sc.Setup {
		if op.K == XBulkInsert && op.N > 10000 {
			budget = 12000000 // the big-table scenario: tens of thousands of inserts and a dozen table copies
		}
	}
	sim := simrt.New(simrt.Config{Seed: sc.SchedSeed, Strategy: sc.Strategy, Epoch: sc.Epoch, StepBudget: budget, Replay: sc.Replay})
	defer sim.Close()
	cacheFam := sc.Family == "cache"
	var m, m2 MapAPI
	var c, c2 CacheAPI
	if cacheFam {
		var cb func(int, int64)
		if sc.Ctor.CB {
			cb = func(int, int64) {}
		}
		c = NewCacheKind(sc.Ctor, cb)
		c2 = c
		if sc.TwoContainers {
			c2 = NewCacheKind(sc.Ctor, cb)
		}
	} else {
		m = NewMapKind(sc.Kind, sc.Hasher, sc.Presize, sc.UsePre)
		m2 = m
		if sc.TwoContainers {
			m2 = NewMapKind(sc.Kind, sc.Hasher, sc.Presize, sc.UsePre)
		}
	}
	// with two containers, odd tasks use the second one: whatever the library
	// shares between containers (package-level state) is then touched concurrently
	execOn := func(second bool, op Op) {
		yieldUser()
		switch {
		case cacheFam && second:
			leanCache(c2, op)
		case cacheFam:
			leanCache(c, op)
		case second:
			leanMap(m2, op)
		default:
			leanMap(m, op)
		}
	}
	exec := func(op Op) { execOn(false, op) }
	prefillPresent := sc.Prefill
	if sc.PrefillKeep >= 0 && sc.PrefillKeep < sc.Prefill {
		prefillPresent = sc.PrefillKeep
	}
	sim.Spawn("setup", func() {
		if sc.Prefill > 0 {
			exec(Op{K: XBulkInsert, Key: prefillBase, Val: prefillVal, N: sc.Prefill, D: sentinelNoExp})
			if prefillPresent < sc.Prefill {
				exec(Op{K: XBulkDelete, Key: prefillBase + prefillPresent, N: sc.Prefill - prefillPresent})
			}
		}
		for _, op := range sc.Setup {
			exec(op)
		}
	})
	out := sim.Run()
	sim.WaitFin()
	for pi := range sc.Phases {
		if out != simrt.OutOK {
			break
		}
		ph := &sc.Phases[pi]
		if ph.Advance != 0 {
			sim.Advance(ph.Advance, false, 0)
		}
		for ti := range ph.Tasks {
			prog := ph.Tasks[ti]
			second := sc.TwoContainers && ti%2 == 1
			t := sim.Spawn(fmt.Sprintf("p%dt%d", pi, ti), func() {
				for _, op := range prog {
					execOn(second, op)
				}
			})
			for _, d := range ph.Delays {
				if d.Task == ti {
					t.DelayAt = d.AtStep
				}
			}
		}
		out = sim.Run()
		sim.WaitFin()
		res.NonTrivial = res.NonTrivial || len(ph.Tasks) > 1
	}
	if out != simrt.OutOK {
		res.finishOutcome(sim, 0, sc)
	}
	res.TraceHash = sim.TraceHash
	res.Decisions = append([]uint16(nil), sim.Decisions...)
	res.Steps = sim.Seq
	res.Switches = sim.Switches
	res.SimTime = sim.SimTime
	res.Diverged = sim.Diverged
	if payloadBad > 0 {
		res.add("payload", 0, "%d payloads were read with a broken checksum (a value was obtained before its fields were visible)", payloadBad)
		payloadBad = 0
	}
	if raceLogGrew() {
		res.add("race", 0, "the race detector reported a data race during this run (report in the detector log)")
	}
	return res
}
