package main

import (
	"fmt"
	"sort"
	"strings"
	"time"

	"github.com/anishathalye/porcupine"
	"github.com/fufuok/cache/verifsim/bridge"
	"github.com/fufuok/cache/verifsim/simrt"
)

// ConcScenario is one concurrent simulated run: a container, a sequential
// set-up, then phases in which several tasks run their programs under the
// seeded scheduler with the virtual clock frozen.
type ConcScenario struct {
	Prop     string `json:"prop"`
	Family   string `json:"family"` // "map" | "cache"
	Kind     string `json:"kind"`
	Hasher   string `json:"hasher,omitempty"`
	HashMode string `json:"hash_mode"` // det | collide | native
	CollideN int    `json:"collide_n,omitempty"`
	MinLen   int    `json:"min_len"`                 // min table length knob (32 = shipped)
	MinCap   int    `json:"min_cap_floor,omitempty"` // MinCapacity floor knob of the cache constructors (0 or 96 = shipped)
	Presize  int    `json:"presize"`
	UsePre   bool   `json:"use_presized"`

	Ctor   CacheCtor `json:"ctor"`
	Epoch  int64     `json:"epoch"`
	CBKind int       `json:"cb_kind"` // 0 none, 1 recording, 2 recording + re-entrant, 3 slow, 4 observer, 5 re-arming
	// TickPerRead: the clock advances by this much at every reading (C13 only:
	// no oracle that models time is applied to such a run)
	TickPerRead int64  `json:"tick_per_read,omitempty"`
	Tier        string `json:"tier,omitempty"`
	Other       bool   `json:"other,omitempty"` // a second container of the same kind exists; user functions with Op.Other write to it
	// TwoContainers (C14 only): odd tasks work on a second container of the same kind
	TwoContainers bool `json:"two_containers,omitempty"`

	Prefill     int `json:"prefill"`      // keys prefillBase.. stored in set-up
	PrefillKeep int `json:"prefill_keep"` // after filling, delete all but this many (-1: keep all)

	Setup  []Op    `json:"setup"`
	Phases []Phase `json:"phases"`

	Strategy  simrt.StrategyConfig `json:"strategy"`
	SchedSeed uint64               `json:"sched_seed"`
	TableSeed uint64               `json:"table_seed"`
	Replay    []uint16             `json:"replay,omitempty"`
	// ReplayRLE: the recorded schedule, run-length encoded ("task x steps";
	// S<task> = the task was frozen by a stall fault, R<task> = released)
	ReplayRLE string `json:"replay_rle,omitempty"`
}

type Phase struct {
	Advance int64     `json:"advance"`
	Tasks   [][]Op    `json:"tasks"`
	Stall   *StallCfg `json:"stall,omitempty"`
	// Optional marks tasks that may legitimately block behind a stalled victim.
	Optional []int      `json:"optional,omitempty"`
	Delays   []DelayCfg `json:"delays,omitempty"`
}

type StallCfg struct {
	Task   int  `json:"task"`
	AtStep int  `json:"at_step"` // freeze when the task reaches this own step (0: only via op.Park)
	Resume bool `json:"resume"`  // false: frozen for the rest of the run
}

type DelayCfg struct {
	Task   int `json:"task"`
	AtStep int `json:"at_step"`
}

const (
	prefillBase = 1000
	fillerBase  = 2000
	freshBase   = 5000
)

type Violation struct {
	Rule   string `json:"rule"`
	Phase  int    `json:"phase"`
	Detail string `json:"detail"`
}

// ConcResult is everything a run produced.
type ConcResult struct {
	Violations []Violation
	Outcome    simrt.Outcome
	Explain    string
	TraceHash  uint64
	Decisions  []uint16
	Steps      uint64
	Switches   uint64
	SimTime    int64
	Recs       []*Rec
	Reports    []Report
	Probes     map[string]int
	NonTrivial bool
	LinOK      int
	LinIllegal int
	LinUnknown int
	LinSkipped int
	Diverged   bool
	Panic      string
}

func (r *ConcResult) add(rule string, phase int, f string, a ...interface{}) {
	r.Violations = append(r.Violations, Violation{rule, phase, fmt.Sprintf(f, a...)})
}

func (r *ConcResult) probe(name string, n int) {
	if n != 0 {
		r.Probes[name] += n
	}
}

type keyState struct {
	v int64
	e int64
}

// physState: what can be said about the physical presence of an expired entry
// without looking inside the container (DESIGN §3.1).
type physState int

const (
	physNone physState = iota
	physExpUntouched
	physExpMaybe
)

func setHash(mode string, n int, seed uint64) {
	// one scenario in six of the deterministic modes uses the extreme-value
	// variant (top 24 hash bits zero for a quarter of the keys); decided by the
	// table seed so that no generator draws change
	simrt.SetHashZeroTop(mode != "native" && mode != "collide" && simrt.Mix64(seed^0x70B0)%6 == 0)
	switch mode {
	case "native":
		simrt.SetHashMode(simrt.HashNative, 1, seed)
	case "collide":
		simrt.SetHashMode(simrt.HashCollide, n, seed)
	case "split":
		simrt.SetHashMode(simrt.HashSplit, n, seed)
	default:
		simrt.SetHashMode(simrt.HashDet, 1, seed)
	}
}

// want: which oracles to evaluate.
type Want struct {
	Lin, Ledger, Traversal, Size, Racers, ReadBound bool
	Defaults                                        bool // C09: entries stored with DefaultExpiration while the default is being changed
}

// RunConc executes the scenario and evaluates the requested oracles.
func RunConc(sc *ConcScenario, want Want) *ConcResult {
	res := &ConcResult{Probes: map[string]int{}}
	setHash(sc.HashMode, sc.CollideN, sc.TableSeed)
	minLen := sc.MinLen
	if minLen <= 0 {
		minLen = 32
	}
	if !bridge.SetMinTableLen(minLen) && minLen != 32 {
		res.probe("knob_unavailable", 1)
	}
	defer bridge.SetMinTableLen(32)
	if sc.MinCap > 0 {
		if !bridge.SetMinCapacity(sc.MinCap) && sc.MinCap != 96 {
			res.probe("knob_unavailable", 1)
		}
		defer bridge.SetMinCapacity(96)
	}

	budget := uint64(3000000) // watchdog only (never a verdict)
	callLimit := 400000
	if sc.Tier == "thorough" {
		callLimit = 1500000
	}
	sim := simrt.New(simrt.Config{Seed: sc.SchedSeed, Strategy: sc.Strategy, Epoch: sc.Epoch, StepBudget: budget, Replay: sc.Replay, CallStepLimit: callLimit})
	if sc.Strategy.Kind == "rrq" {
		res.probe("rrq_schedules", 1)
	}
	if sc.CBKind == 5 {
		res.probe("rearming_callback_runs", 1)
	}
	if sc.TickPerRead > 0 {
		res.probe("running_clock_runs", 1)
		// a running clock: every reading is later than the one before
		tick := sc.TickPerRead
		sim.NowHook = func(s *simrt.Sim) { s.Advance(tick, false, 0) }
	}
	defer sim.Close()
	w := &World{sim: sim, swapCB: sc.Prop == "C13"}
	cacheFam := sc.Family == "cache"
	if cacheFam {
		var cb func(int, int64)
		if sc.CBKind > 0 && sc.Ctor.CB && sc.Ctor.Ctor != "plain" {
			cb, w.cbAtCtor = w.callback(sc.CBKind)
		}
		w.c = NewCacheKind(sc.Ctor, cb)
		w.defAtCtor, _ = sc.Ctor.Effective()
	} else {
		w.m = NewMapKind(sc.Kind, sc.Hasher, sc.Presize, sc.UsePre)
	}
	if sc.Other {
		if cacheFam {
			w.otherC = NewCacheKind(sc.Ctor, nil)
		} else {
			w.otherM = NewMapKind(sc.Kind, sc.Hasher, sc.Presize, sc.UsePre)
		}
		res.probe("two_container_runs", 1)
	}
	exec := func(op Op) *Rec {
		if cacheFam {
			return w.ExecCache(op, false)
		}
		return w.ExecMap(op, false)
	}
	prefillPresent := sc.Prefill
	if sc.PrefillKeep >= 0 && sc.PrefillKeep < sc.Prefill {
		prefillPresent = sc.PrefillKeep
	}

	// ---- set-up (one task, sequential) ----
	known := map[int]bool{} // keys named so far (except prefill)
	state := map[int]keyState{}
	phys := map[int]physState{}
	noteKeys := func(recs []*Rec) {
		for _, r := range recs {
			switch r.Op.K {
			case MClear, CClear, MRange, CRange, CItems, MSize, CCount, XPrefillCount, CDeleteExpired, XAdvance, XPass, XTick, XGC,
				CSetDefaultExpiration, CDefaultExpiration, CSetCallback, XBulkInsert, XBulkDelete:
			default:
				if !isPrefillKey(r.Op.Key) {
					known[r.Op.Key] = true
				}
			}
		}
	}
	recStart := 0
	sim.Spawn("setup", func() {
		if cacheFam && sc.CBKind > 0 && !sc.Ctor.CB {
			exec(Op{K: CSetCallback, N: sc.CBKind})
		}
		if sc.Prefill > 0 {
			k := XBulkInsert
			exec(Op{K: k, Key: prefillBase, Val: prefillVal, N: sc.Prefill, D: sentinelNoExp})
			if prefillPresent < sc.Prefill {
				exec(Op{K: XBulkDelete, Key: prefillBase + prefillPresent, N: sc.Prefill - prefillPresent})
			}
		}
		for _, op := range sc.Setup {
			exec(op)
		}
	})
	out := sim.Run()
	sim.WaitFin()
	if out != simrt.OutOK {
		res.finishOutcome(sim, -1, sc)
		res.collect(sim, w)
		return res
	}
	def0 := int64(sentinelNoExp)
	if cacheFam {
		d, _ := sc.Ctor.Effective()
		if d >= 1 {
			def0 = d
		}
	}
	def := def0
	// the set-up is checked like a phase with a single task
	setupRecs := w.recs[recStart:]
	noteKeys(setupRecs)
	init := emptyState()
	init.Pre = false
	phaseInit := init
	// run the set-up through the model sequentially to get the state
	{
		st := init
		slots := assignSlots(known)
		bad := false
		if slots == nil {
			res.LinSkipped++
		} else {
			for _, r := range setupRecs {
				if r.Op.K == XBulkInsert {
					st.Pre = prefillPresent > 0
					continue
				}
				if skipInLin(r.Op.K) {
					continue
				}
				in := linInput{Op: r.Op, Slot: slotOf(slots, r.Op), Cache: cacheFam, Now: r.Now, Def: def}
				ok, ns := linStep(st, in, recOutput(r))
				if !ok && want.Lin {
					res.add("lin", -1, "set-up (sequential) result disagrees with the model: %s", r)
					bad = true
					break
				}
				st = ns
			}
			if !bad {
				for k, s := range slots {
					if st.V[s] != absent {
						state[k] = keyState{st.V[s], st.E[s]}
					}
				}
			}
		}
		phaseInit = st
	}
	prePresent := prefillPresent > 0
	_ = phaseInit
	var ticksSeen uint64

	// ---- phases ----
	for pi := range sc.Phases {
		ph := &sc.Phases[pi]
		if ph.Advance != 0 {
			sim.Advance(ph.Advance, false, 0)
			res.probe("clock_advances", 1)
		}
		res.probe("phases", 1)
		res.probe("tasks", len(ph.Tasks))
		now := sim.Now()
		// entries whose expiration instant has passed are absent from now on
		for k, ks := range state {
			if ks.e != 0 && now > ks.e {
				delete(state, k)
				if phys[k] == physNone {
					phys[k] = physExpUntouched
				}
			}
		}
		recStart = len(w.recs)
		tasks := make([]*simrt.Task, len(ph.Tasks))
		for ti := range ph.Tasks {
			prog := ph.Tasks[ti]
			tasks[ti] = sim.Spawn(fmt.Sprintf("p%dt%d", pi, ti), func() {
				for _, op := range prog {
					exec(op)
				}
			})
		}
		for _, o := range ph.Optional {
			if o < len(tasks) {
				tasks[o].Optional = true
			}
		}
		stalled := false
		if ph.Stall != nil && ph.Stall.Task < len(tasks) {
			tasks[ph.Stall.Task].StallAt = ph.Stall.AtStep
			if ph.Stall.Resume {
				// a long but finite stall: released when nobody else can move
				tasks[ph.Stall.Task].StallResume = true
			} else {
				stalled = true
				sim.EndEarly = true
			}
		}
		for _, d := range ph.Delays {
			if d.Task < len(tasks) {
				tasks[d.Task].DelayAt = d.AtStep
			}
		}
		bgBefore := sim.BackgroundTasks()
		out = sim.Run()
		sim.WaitFin()
		_ = bgBefore
		victimStuck := false
		if stalled {
			victimStuck = tasks[ph.Stall.Task].Stalled()
			if victimStuck {
				res.probe("stall_fired", 1)
			}
		}
		if out != simrt.OutOK {
			res.finishOutcome(sim, pi, sc)
			if want.ReadBound {
				res.checkReaders(w.recs[recStart:], pi, sc, tasks, true, len(state)+prefillNow(prePresent, prefillPresent))
			}
			res.collect(sim, w)
			return res
		}
		// ---- read-out (sequential task) ----
		phaseRecs := w.recs[recStart:]
		noteKeys(phaseRecs)
		var ro []*Rec
		var sizeRec, rangeRec, preRec *Rec
		if !victimStuck {
			sim.EndEarly = false
			sim.Spawn(fmt.Sprintf("readout%d", pi), func() {
				if cacheFam && hasTick(ph) {
					exec(Op{K: CDeleteExpired}) // flush: whatever is still expired and present is reported now
					noteKeys(w.recs[recStart:]) // a re-entrant callback may have stored under new keys
				}
				keys := sortedKeys(known)
				for _, k := range keys {
					if cacheFam {
						ro = append(ro, exec(Op{K: CGetWithExpiration, Key: k}))
					} else {
						ro = append(ro, exec(Op{K: MLoad, Key: k}))
					}
				}
				if sc.Prefill > 0 {
					r := w.begin(Op{K: XPrefillCount, N: prefillPresent}, false)
					for i := 0; i < sc.Prefill; i++ {
						var ok bool
						if cacheFam {
							_, ok = w.c.Get(prefillBase + i)
						} else {
							_, ok = w.m.Load(prefillBase + i)
						}
						if ok {
							r.N++
						}
					}
					w.end(r)
					preRec = r
				}
				if cacheFam {
					sizeRec = exec(Op{K: CCount})
					rangeRec = exec(Op{K: CRange})
				} else {
					sizeRec = exec(Op{K: MSize})
					rangeRec = exec(Op{K: MRange})
				}
			})
			out = sim.Run()
			sim.WaitFin()
			if out != simrt.OutOK {
				res.finishOutcome(sim, pi, sc)
				res.collect(sim, w)
				return res
			}
		}
		allRecs := w.recs[recStart:]
		noteKeys(allRecs)
		slots := assignSlots(known)

		// non-triviality: some context switch happened inside an operation
		for _, r := range phaseRecs {
			for _, q := range phaseRecs {
				if q.Task != r.Task && q.Call < r.Ret && r.Call < q.Ret && !r.Pending {
					res.NonTrivial = true
				}
			}
		}

		// initial model state of this phase
		st0 := emptyState()
		st0.Pre = prePresent
		timed := cacheFam && hasTick(ph)
		if slots != nil {
			for k, ks := range state {
				if s, ok := slots[k]; ok {
					st0.V[s], st0.E[s] = ks.v, ks.e
					if timed {
						st0.EH[s] = ks.e
					}
				}
			}
		}
		if timed {
			res.probe("timed_lin_phases", 1)
		}

		// ---- linearizability ----
		linBad := false
		if want.Lin || want.Traversal || want.ReadBound {
			if slots == nil {
				res.LinSkipped++
			} else {
				lr := checkLin(allRecs, st0, slots, cacheFam, now, def, sim.Seq, 4*time.Second, prefillPresent, timed)
				switch {
				case lr.Skipped != "":
					res.LinSkipped++
				case lr.Result == porcupine.Ok:
					res.LinOK++
				case lr.Result == porcupine.Unknown:
					res.LinUnknown++
				default:
					res.LinIllegal++
					linBad = true
					// attribute: is the history without the traversal visits legal?
					rule := "lin"
					var noRange []*Rec
					hasRange := false
					for _, r := range allRecs {
						if (r.Op.K == MRange || r.Op.K == CRange || r.Op.K == CItems) && len(r.Visits) > 0 {
							hasRange = true
							continue
						}
						noRange = append(noRange, r)
					}
					if hasRange {
						lr2 := checkLin(noRange, st0, slots, cacheFam, now, def, sim.Seq, 4*time.Second, prefillPresent, timed)
						if lr2.Result == porcupine.Ok {
							rule = "range-lin"
						}
					}
					res.add(rule, pi, "history of phase %d is not linearizable (%d operations)", pi, lr.Ops)
				}
			}
		}

		// ---- user-function call counts and racers (C05) ----
		if want.Racers {
			res.checkFnCalls(allRecs, pi)
		}
		_ = linBad

		// ---- traversal (C07) ----
		if want.Traversal {
			res.checkTraversal(phaseRecs, st0, slots, pi, sc, prePresent, prefillPresent, cacheFam)
		}

		// ---- readers never wait (C16) ----
		if want.ReadBound {
			res.checkReaders(phaseRecs, pi, sc, tasks, false, len(state)+prefillNow(prePresent, prefillPresent))
		}

		if victimStuck {
			break // nothing can be read out safely behind a frozen victim
		}

		// ---- new state from the read-out ----
		newState := map[int]keyState{}
		for _, r := range ro {
			if r.Ok {
				newState[r.Op.Key] = keyState{r.Val, r.Exp}
			}
		}
		if want.Racers {
			res.checkRacers(phaseRecs, st0, slots, pi, newState)
		}
		if want.Size {
			res.checkClearSurvivors(phaseRecs, state, newState, pi)
		}
		if want.Defaults && cacheFam {
			res.checkDefaults(phaseRecs, ro, def0, pi)
		}
		cleared := false
		for _, r := range phaseRecs {
			if r.Op.K == MClear || r.Op.K == CClear {
				cleared = true
			}
		}
		if cleared && preRec != nil && preRec.N == 0 {
			prePresent = false
		}

		// ---- physical presence bookkeeping for caches ----
		if cacheFam {
			globalRemover := false
			for _, r := range allRecs {
				switch r.Op.K {
				case CDeleteExpired, CClear:
					globalRemover = true
				}
			}
			if sim.TicksSent != ticksSeen {
				// a janitor pass ran in this phase
				globalRemover = true
				ticksSeen = sim.TicksSent
			}
			for k, p := range phys {
				if p == physNone {
					continue
				}
				if globalRemover {
					phys[k] = physNone
					continue
				}
				for _, r := range allRecs {
					if keyedOp(r.Op.K) && r.Op.Key == k {
						switch r.Op.K {
						case CGet, CGetWithExpiration, CGetWithTTL, CGetAndRefresh:
							if phys[k] == physExpUntouched {
								phys[k] = physExpMaybe
							}
						default:
							phys[k] = physNone // replaced or removed for sure
						}
					}
				}
				if _, live := newState[k]; live {
					phys[k] = physNone
				}
			}
		}

		// ---- size at quiescence (C08) ----
		if want.Size && sizeRec != nil {
			found := len(newState)
			if preRec != nil {
				found += preRec.N
			}
			visits := len(rangeRec.Visits)
			if !cacheFam {
				if sizeRec.N != found || visits != found {
					res.add("size", pi, "at quiescence Size()=%d, Range visited %d pairs, Load found %d keys", sizeRec.N, visits, found)
				}
			} else {
				lo, hi := found, found
				for _, p := range phys {
					switch p {
					case physExpUntouched:
						lo++
						hi++
					case physExpMaybe:
						hi++
					}
				}
				if sizeRec.N < lo || sizeRec.N > hi {
					res.add("size", pi, "at quiescence Count()=%d outside [%d,%d] (live=%d)", sizeRec.N, lo, hi, found)
				}
				if visits != found {
					res.add("size", pi, "at quiescence Range visited %d pairs but Get found %d live keys", visits, found)
				}
			}
		}
		state = newState
	}

	// ---- evicted-callback ledger (C06) ----
	if want.Ledger && cacheFam {
		res.checkLedger(w, sc, state)
	}
	// ---- DeleteExpired removes everything that is expired (C08: Count equals
	// the live-entry count right after DeleteExpired) ----
	if want.Size && cacheFam {
		res.checkSweepComplete(w)
	}
	res.collect(sim, w)
	return res
}

func prefillNow(present bool, n int) int {
	if present {
		return n
	}
	return 0
}

func keyedOp(k OpKind) bool {
	switch k {
	case MClear, CClear, MRange, CRange, CItems, MSize, CCount, XPrefillCount, CDeleteExpired, XAdvance, XPass, XTick, XGC,
		CSetDefaultExpiration, CDefaultExpiration, CSetCallback, XBulkInsert, XBulkDelete:
		return false
	}
	return true
}

func skipInLin(k OpKind) bool {
	switch k {
	case MSize, CCount, XAdvance, XTick, XGC, CDeleteExpired, XPass, CDefaultExpiration, CSetCallback, CSetDefaultExpiration, XBulkInsert, XBulkDelete, MRange, CRange, CItems:
		return true
	}
	return false
}

func slotOf(slots map[int]int, op Op) int {
	if !keyedOp(op.K) {
		return -1
	}
	return slots[op.Key]
}

func recOutput(r *Rec) linOutput {
	return linOutput{Val: r.Val, Ok: r.Ok, Exp: r.Exp, TTL: r.TTL, N: r.N, FnCalls: r.FnCalls, FnOld: r.FnOld, FnLoaded: r.FnLoaded}
}

func sortedKeys(m map[int]bool) []int {
	ks := make([]int, 0, len(m))
	for k := range m {
		ks = append(ks, k)
	}
	sort.Ints(ks)
	return ks
}

func assignSlots(known map[int]bool) map[int]int {
	if len(known) > maxSlots {
		return nil
	}
	slots := map[int]int{}
	for i, k := range sortedKeys(known) {
		slots[k] = i
	}
	return slots
}

func (res *ConcResult) collect(sim *simrt.Sim, w *World) {
	res.TraceHash = sim.TraceHash
	res.Decisions = append([]uint16(nil), sim.Decisions...)
	res.Steps = sim.Seq
	res.Switches = sim.Switches
	res.SimTime = sim.SimTime
	res.Recs = w.recs
	res.Reports = w.reports
	res.Diverged = sim.Diverged
	func() {
		if res.Outcome != simrt.OutDeadlock && res.Outcome != simrt.OutLivelock {
			return
		}
		// "the visitor may insert, update or delete entries of the same
		// container" (C07): a call issued by a visitor that never returns
		for _, n := range w.recs {
			if !n.Pending || !n.Nested {
				continue
			}
			for _, o := range w.recs {
				if o.Pending && !o.Nested && o.Task == n.Task && o.Call < n.Call && (o.Op.K == MRange || o.Op.K == CRange || o.Op.K == CItems) {
					res.add("range-visitor-stuck", -1, "a call made by a traversal's visitor never returned: %s inside %s (%s)", n, o, firstLineOf(sim.Explain))
					return
				}
			}
		}
	}()
	res.probe("cas_fail", int(sim.CASFail))
	res.probe("mutex_block", int(sim.MutexBlocks))
	res.probe("cond_wait", int(sim.CondWaits))
	res.probe("ticks_sent", int(sim.TicksSent))
	res.probe("ticks_dropped", int(sim.TicksDrop))
	res.probe("stalls_fired", int(sim.StallsFired))
	res.probe("stalls_resumed", int(sim.StallsResumed))
	res.probe("delays_fired", int(sim.DelaysFired))
	if w.m != nil {
		if st, ok := bridge.StatsOf(w.m.Raw()); ok {
			res.probe("grows", int(st.Growths))
			res.probe("shrinks", int(st.Shrinks))
			if st.TotalBuckets > st.RootBuckets {
				res.probe("chained_buckets", st.TotalBuckets-st.RootBuckets)
			}
		}
	}
	for _, t := range sim.Tasks() {
		if t.PanicText != "" {
			res.Panic = t.PanicText
		}
	}
}

func (res *ConcResult) finishOutcome(sim *simrt.Sim, phase int, sc *ConcScenario) {
	res.Outcome = sim.Outcome()
	res.Explain = sim.Explain
	switch res.Outcome {
	case simrt.OutDeadlock:
		res.add("deadlock", phase, "%s", sim.Explain)
	case simrt.OutLivelock:
		res.add("livelock", phase, "%s", sim.Explain)
	case simrt.OutPanic:
		res.add("panic", phase, "%s", sim.Explain)
	case simrt.OutBudget:
		res.add("budget", phase, "%s", sim.Explain)
	}
}

// ---------------------------------------------------------------------------
// C05: user function call counts, racers, chains

func (res *ConcResult) checkFnCalls(recs []*Rec, phase int) {
	for _, r := range recs {
		if r.Pending {
			continue
		}
		switch r.Op.K {
		case MCompute, CCompute:
			if r.FnCalls != 1 {
				res.add("fn-calls", phase, "Compute function ran %d times in one call: %s", r.FnCalls, r)
			}
		case MLoadOrCompute, CGetOrCompute:
			want := 1
			if r.Ok {
				want = 0
			}
			if r.FnCalls != want {
				res.add("fn-calls", phase, "valueFn ran %d times but loaded=%v: %s", r.FnCalls, r.Ok, r)
			}
		}
	}
}

func isGetOrCreate(k OpKind) bool {
	switch k {
	case MLoadOrStore, MLoadOrCompute, CGetOrSet, CGetOrCompute:
		return true
	}
	return false
}

func isPureRead(k OpKind) bool {
	switch k {
	case MLoad, CGet, CGetWithExpiration, CGetWithTTL:
		return true
	}
	return false
}

// checkRacers: direct assertions that need no search. For a key on which only
// get-or-create calls and pure reads were issued in the phase: exactly one
// value is stored, exactly one caller reports loaded=false (none if the key
// was present), everybody returns that value. For a key whose only writers
// were FnInc Computes: the observed old values are pairwise distinct and
// contiguous from the initial value.
func (res *ConcResult) checkRacers(recs []*Rec, st0 linState, slots map[int]int, phase int, final map[int]keyState) {
	if slots == nil {
		return
	}
	byKey := map[int][]*Rec{}
	clear := false
	for _, r := range recs {
		if r.Op.K == MClear || r.Op.K == CClear {
			clear = true
		}
		if keyedOp(r.Op.K) {
			byKey[r.Op.Key] = append(byKey[r.Op.Key], r)
		}
	}
	if clear {
		return
	}
	for k, rs := range byKey {
		s, ok := slots[k]
		if !ok {
			continue
		}
		onlyGOC, onlyInc, onlySwap := true, true, true
		nGOC, nInc, nSwap := 0, 0, 0
		for _, r := range rs {
			if r.Pending {
				onlyGOC, onlyInc, onlySwap = false, false, false
			}
			switch {
			case isGetOrCreate(r.Op.K):
				nGOC++
				onlyInc, onlySwap = false, false
			case isPureRead(r.Op.K):
			case (r.Op.K == MCompute || r.Op.K == CCompute) && r.Op.Fn == FnInc:
				nInc++
				onlyGOC, onlySwap = false, false
			case r.Op.K == MLoadAndStore || r.Op.K == CGetAndSet:
				nSwap++
				onlyGOC, onlyInc = false, false
			case r.Op.K == CGetAndRefresh:
				onlyGOC = false
			default:
				onlyGOC, onlyInc, onlySwap = false, false, false
			}
		}
		if onlySwap && nSwap >= 2 {
			// swap chain: every value is handed on exactly once
			res.probe("swap_keys", 1)
			stored := map[int64]bool{}
			for _, r := range rs {
				if r.Op.K == MLoadAndStore || r.Op.K == CGetAndSet {
					stored[r.Op.Val] = true
				}
			}
			initPresent := st0.V[s] != absent
			if len(stored) != nSwap || (initPresent && stored[st0.V[s]]) {
				continue // the values in play are not pairwise distinct: the rule does not apply
			}
			seenOld := map[int64]bool{}
			misses := 0
			for _, r := range rs {
				if r.Op.K != MLoadAndStore && r.Op.K != CGetAndSet {
					continue
				}
				if !r.Ok {
					misses++
					continue
				}
				if seenOld[r.Val] {
					res.add("chain", phase, "two swaps of k%d both returned old value v%d (one update was lost or resurrected): %s", k, r.Val, r)
				}
				seenOld[r.Val] = true
				if !stored[r.Val] && !(initPresent && r.Val == st0.V[s]) {
					res.add("chain", phase, "swap of k%d returned v%d which nobody stored: %s", k, r.Val, r)
				}
			}
			if initPresent && misses != 0 {
				res.add("chain", phase, "key k%d held a live value yet %d swaps reported loaded=false", k, misses)
			}
			if !initPresent && misses != 1 {
				res.add("chain", phase, "key k%d was absent and %d swaps reported loaded=false (want exactly 1)", k, misses)
			}
			if fs, ok := final[k]; ok {
				if seenOld[fs.v] {
					res.add("chain", phase, "the final value v%d of k%d was already handed on as an old value", fs.v, k)
				}
				if !stored[fs.v] {
					res.add("chain", phase, "the final value v%d of k%d was not stored by any swap", fs.v, k)
				}
			} else {
				res.add("chain", phase, "k%d is absent after %d completed swaps", k, nSwap)
			}
		}
		if onlyGOC && nGOC >= 1 {
			res.probe("racer_keys", 1)
			winners := 0
			var winVal int64
			for _, r := range rs {
				if isGetOrCreate(r.Op.K) && !r.Ok {
					winners++
					winVal = r.Val
				}
			}
			initPresent := st0.V[s] != absent
			switch {
			case initPresent && winners != 0:
				res.add("racers", phase, "key k%d held a live value v%d yet %d get-or-create calls reported loaded=false", k, st0.V[s], winners)
			case !initPresent && winners != 1:
				res.add("racers", phase, "key k%d was absent and %d of %d racing get-or-create calls reported loaded=false (want exactly 1)", k, winners, nGOC)
			default:
				want := winVal
				if initPresent {
					want = st0.V[s]
				}
				for _, r := range rs {
					if isGetOrCreate(r.Op.K) && r.Val != want {
						res.add("racers", phase, "get-or-create on k%d returned v%d, the one stored value is v%d: %s", k, r.Val, want, r)
					}
					if isPureRead(r.Op.K) && r.Ok && r.Val != want {
						res.add("racers", phase, "read of k%d returned v%d, the one stored value is v%d: %s", k, r.Val, want, r)
					}
				}
			}
		}
		if onlyInc && nInc >= 2 {
			res.probe("chain_keys", 1)
			base := int64(0)
			if st0.V[s] != absent {
				base = st0.V[s]
			}
			seen := map[int64]bool{}
			for _, r := range rs {
				if r.Op.K != MCompute && r.Op.K != CCompute {
					continue
				}
				old := r.FnOld
				if !r.FnLoaded {
					old = 0
				}
				if seen[old] {
					res.add("chain", phase, "two increments of k%d both observed old value %d (lost update): %s", k, old, r)
				}
				seen[old] = true
				if old < base || old >= base+int64(nInc) {
					res.add("chain", phase, "increment of k%d observed %d outside [%d,%d): %s", k, old, base, base+int64(nInc), r)
				}
			}
			if fs, ok := final[k]; !ok || fs.v != base+int64(nInc) {
				res.add("chain", phase, "after %d increments from %d the final value of k%d is %v (present=%v)", nInc, base, k, fs.v, ok)
			}
		}
	}
}

// ---------------------------------------------------------------------------
// C07: traversal

func removingOp(op Op) bool {
	switch op.K {
	case MDelete, MLoadAndDelete, MClear, CDelete, CGetAndDelete, CClear, XBulkDelete:
		return true
	case MCompute, CCompute:
		return op.Fn == FnDelete || op.Fn == FnDeleteIfLoaded
	}
	return false
}

func storingForSure(r *Rec) bool {
	if r.Pending {
		return false
	}
	switch r.Op.K {
	case MStore, MLoadAndStore, CSet, CSetDefault, CSetForever, CGetAndSet:
		return true
	case MLoadOrStore, MLoadOrCompute, CGetOrSet, CGetOrCompute:
		return !r.Ok
	case MCompute, CCompute:
		return r.Ok
	}
	return false
}

func (res *ConcResult) checkTraversal(recs []*Rec, st0 linState, slots map[int]int, phase int, sc *ConcScenario, prePresent bool, preCount int, cacheFam bool) {
	for _, r := range recs {
		if r.Op.K != MRange && r.Op.K != CRange && r.Op.K != CItems {
			continue
		}
		if r.Op.K == CRange && r.Op.N == -1 {
			if len(r.Visits) != 0 {
				res.add("range-nil", phase, "Range(nil) visited entries")
			}
			continue
		}
		res.probe("ranges", 1)
		seen := map[int]bool{}
		for _, kv := range r.Visits {
			if seen[kv.K] {
				res.add("range-dup", phase, "key k%d visited twice in one traversal: %s", kv.K, r)
			}
			seen[kv.K] = true
		}
		if r.Op.Stop > 0 && len(r.Visits) > r.Op.Stop {
			res.add("range-stop", phase, "visitor returned false after %d visits but was called %d times", r.Op.Stop, len(r.Visits))
		}
		if r.Pending {
			continue
		}
		stopped := r.Op.Stop > 0 && len(r.Visits) >= r.Op.Stop
		// keys that stay present for the whole call must be visited
		if stopped {
			continue
		}
		mustSee := map[int]bool{}
		if slots != nil {
			for k, s := range slots {
				if st0.V[s] != absent {
					mustSee[k] = true
				}
			}
		}
		for _, q := range recs {
			if q == r || !keyedOp(q.Op.K) {
				continue
			}
			if storingForSure(q) && q.Ret < r.Call {
				mustSee[q.Op.Key] = true
			}
		}
		preOK := prePresent
		concurrentWriter := false
		for _, q := range recs {
			if q == r {
				continue
			}
			if q.Call < r.Ret || q.Pending {
				// invoked before the traversal ended: may have removed the key
				if removingOp(q.Op) {
					if q.Op.K == MClear || q.Op.K == CClear {
						mustSee = map[int]bool{}
						preOK = false
					} else if q.Op.K == XBulkDelete {
						preOK = false
					} else {
						delete(mustSee, q.Op.Key)
					}
				}
			}
			if q.Ret > r.Call && q.Call < r.Ret && !isPureRead(q.Op.K) && q.Op.K != MRange && q.Op.K != CRange && q.Op.K != MSize && q.Op.K != CCount {
				concurrentWriter = true
			}
		}
		for k := range mustSee {
			if !seen[k] {
				res.add("range-missed", phase, "key k%d stayed present for the whole traversal but was not visited: %s", k, r)
			}
		}
		if preOK {
			n := 0
			for _, kv := range r.Visits {
				if kv.K >= prefillBase && kv.K < prefillBase+sc.Prefill {
					n++
				}
			}
			if n != preCount {
				res.add("range-missed", phase, "traversal visited %d of the %d prefill keys that stayed present", n, preCount)
			}
		}
		if !concurrentWriter {
			res.probe("ranges_quiet", 1)
		} else {
			res.probe("ranges_overlapped", 1)
		}
	}
}

// ---------------------------------------------------------------------------
// C16: readers never wait for a stalled writer

func qualifiesAsRead(k OpKind) bool {
	switch k {
	case MLoad, MSize, CGet, CGetWithExpiration, CGetWithTTL, CCount:
		return true
	}
	return false
}

func (res *ConcResult) checkReaders(recs []*Rec, phase int, sc *ConcScenario, tasks []*simrt.Task, aborted bool, quiescentCount int) {
	ph := &sc.Phases[phase]
	if ph.Stall == nil || ph.Stall.Resume {
		return
	}
	victim := tasks[ph.Stall.Task]
	if !victim.Stalled() {
		return // the fault never fired (the victim finished first)
	}
	// bound on the caller's own synchronisation steps: generous and linear in
	// the chain length and the number of counter stripes (DESIGN C16)
	chain := 1 + sc.Prefill/3 + 8
	bound := 64 + 32*chain + 64
	for _, r := range recs {
		if r.Task == victim.ID || r.Nested {
			continue
		}
		opt := false
		for _, o := range ph.Optional {
			if o < len(tasks) && tasks[o].ID == r.Task {
				opt = true
			}
		}
		if opt {
			continue
		}
		read := qualifiesAsRead(r.Op.K) || ((r.Op.K == MLoadOrStore || r.Op.K == MLoadOrCompute) && r.Op.N == 1)
		if !read {
			continue
		}
		if (r.Op.K == MSize || r.Op.K == CCount) && !r.Pending && len(ph.Optional) == 0 && quiescentCount >= 0 {
			// "the last completely written value": with the victim as the only
			// writer the count can differ from the quiescent one only by what the
			// victim's own calls may have added or removed so far
			lo, hi := quiescentCount, quiescentCount
			for _, op := range ph.Tasks[ph.Stall.Task] {
				switch op.K {
				case MClear, CClear:
					lo = 0
				case MStore, MLoadAndStore, MLoadOrCompute, MLoadOrStore, CSet, CSetDefault, CSetForever, CGetAndSet, CGetOrSet, CGetOrCompute:
					if !(op.Park && ph.Stall.AtStep == 0) {
						hi++
					}
				case MCompute, CCompute:
					if !(op.Park && ph.Stall.AtStep == 0) {
						hi++
						lo--
					}
				case MDelete, MLoadAndDelete, CDelete, CGetAndDelete:
					lo--
				}
			}
			if lo < 0 {
				lo = 0
			}
			if r.N < lo || r.N > hi {
				res.add("read-count", phase, "Size/Count returned %d while the only writer was stalled; the completely written entries number %d (admissible %d..%d): %s", r.N, quiescentCount, lo, hi, r)
			}
		}
		res.probe("reads_behind_stall", 1)
		if r.Pending {
			res.add("read-blocked", phase, "lookup did not return while a writer was stalled: %s (%s)", r, res.Explain)
			continue
		}
		if r.Waits > 0 {
			res.add("read-waited", phase, "lookup joined a wait set (%d times) while a writer was stalled: %s", r.Waits, r)
		}
		if r.Steps > bound {
			res.add("read-bound", phase, "lookup took %d own steps (bound %d) while a writer was stalled: %s", r.Steps, bound, r)
		}
	}
}

// ---------------------------------------------------------------------------
// C06: callback ledger (rules R1-R5 of DESIGN §3.4, sound under concurrency)

func (res *ConcResult) checkLedger(w *World, sc *ConcScenario, final map[int]keyState) {
	type stored struct {
		key int
		rec *Rec
	}
	storedBy := map[int64]stored{}
	ambiguous := map[int64]bool{}
	for _, r := range w.recs {
		var v int64
		switch r.Op.K {
		case CSet, CSetDefault, CSetForever, CGetAndSet:
			v = r.Op.Val
		case CGetOrSet, CGetOrCompute:
			if !r.Pending && r.Ok {
				continue // did not store
			}
			v = r.Op.Val
		case CCompute:
			if r.FnCalls == 0 {
				continue // the function never ran: nothing was stored
			}
			nv, del := fnResult(r.Op, r.FnOld, r.FnLoaded)
			if del {
				continue
			}
			if r.Op.Fn == FnInc || r.Op.Fn == FnKeep {
				ambiguous[nv] = true // not a fresh unique value
				continue
			}
			v = nv
		case XBulkInsert:
			for i := 0; i < r.Op.N; i++ {
				storedBy[r.Op.Val+int64(i)] = stored{r.Op.Key + i, r}
			}
			continue
		default:
			continue
		}
		if v == 0 {
			continue
		}
		if _, dup := storedBy[v]; dup {
			ambiguous[v] = true
		}
		storedBy[v] = stored{r.Op.Key, r}
	}
	res.probe("reports", len(w.reports))
	seen := map[int64]int{}
	for i, rp := range w.reports {
		if ambiguous[rp.V] {
			continue
		}
		// R1 phantom / mismatch
		sb, ok := storedBy[rp.V]
		switch {
		case !ok:
			res.add("ledger-phantom", -1, "callback reported (k%d, v%d) but v%d was never stored", rp.K, rp.V, rp.V)
		case sb.key != rp.K:
			res.add("ledger-phantom", -1, "callback reported (k%d, v%d) but v%d was stored under k%d", rp.K, rp.V, rp.V, sb.key)
		case sb.rec.Call > rp.Seq:
			res.add("ledger-phantom", -1, "callback reported (k%d, v%d) before the storing call was invoked", rp.K, rp.V)
		}
		// R2 duplicate
		if j, dup := seen[rp.V]; dup {
			res.add("ledger-duplicate", -1, "value v%d (key k%d) reported twice: reports #%d and #%d (tasks %d and %d)", rp.V, rp.K, j, i, w.reports[j].Task, rp.Task)
		}
		seen[rp.V] = i
		// only Delete, GetAndDelete, DeleteExpired and the janitor may report
		if rp.OpIx >= 0 {
			switch w.recs[rp.OpIx].Op.K {
			case CDelete, CGetAndDelete, CDeleteExpired, XBulkDelete: // a bulk delete is a series of Delete calls
			default:
				res.add("ledger-wrong-call", -1, "callback fired inside %s", w.recs[rp.OpIx])
			}
		}
		// R3 still there
		for _, r := range w.recs {
			if r.Call <= rp.Seq || r.Pending {
				continue
			}
			returns := false
			switch r.Op.K {
			case CGet, CGetWithExpiration, CGetWithTTL, CGetAndRefresh, CGetAndDelete:
				returns = r.Ok && r.Val == rp.V
			case CGetOrSet, CGetOrCompute, CGetAndSet:
				returns = r.Ok && r.Val == rp.V
			case CCompute:
				returns = r.FnCalls > 0 && r.FnLoaded && r.FnOld == rp.V
			case CRange, CItems:
				for _, kv := range r.Visits {
					if kv.V == rp.V {
						returns = true
					}
				}
			}
			if returns && r.Op.Val != rp.V {
				res.add("ledger-still-there", -1, "v%d was reported evicted at seq %d but %s (invoked later) still returned it", rp.V, rp.Seq, r)
			}
		}
	}
	// R5 GetAndDelete
	for ix, r := range w.recs {
		if r.Op.K != CGetAndDelete || r.Pending {
			continue
		}
		n := 0
		match := 0
		for _, rp := range w.reports {
			if rp.OpIx == ix {
				n++
				if rp.K == r.Op.Key && rp.V == r.Val {
					match++
				}
			}
		}
		cbInForce := res.callbackInForce(w, r)
		if cbInForce == 0 {
			continue // unknown (swapped concurrently)
		}
		if r.Ok {
			if cbInForce > 0 && (n != 1 || match != 1) {
				res.add("ledger-getanddelete", -1, "GetAndDelete returned (v%d,true) but fired %d reports (%d matching): %s", r.Val, n, match, r)
			}
		} else if n > 1 {
			res.add("ledger-getanddelete", -1, "GetAndDelete returned not-loaded but fired %d reports: %s", n, r)
		}
		if cbInForce < 0 && n > 0 {
			res.add("ledger-getanddelete", -1, "no callback installed but %d reports fired: %s", n, r)
		}
	}
	// R4 lost without report (at final quiescence)
	for v, sb := range storedBy {
		if ambiguous[v] || sb.rec.Pending {
			continue
		}
		if sb.key >= prefillBase && sb.key < prefillBase+sc.Prefill {
			continue
		}
		if ks, ok := final[sb.key]; ok && ks.v == v {
			continue // retrievable
		}
		if _, rep := seen[v]; rep {
			continue
		}
		explained := false
		var exp int64
		for _, r := range w.recs {
			if r == sb.rec {
				continue
			}
			after := r.Ret > sb.rec.Call || r.Pending
			if !after {
				continue
			}
			switch r.Op.K {
			case CClear:
				explained = true
			case CSet, CSetDefault, CSetForever, CGetAndSet, CGetOrSet, CGetOrCompute, CCompute, CGetAndRefresh:
				if r.Op.Key == sb.key {
					explained = true // possibly replaced / deleted via Compute / re-armed
				}
			case CDelete, CGetAndDelete:
				// removal by these must be reported if a callback is in force
				if r.Op.Key == sb.key && res.callbackInForce(w, r) <= 0 {
					explained = true
				}
			case XBulkDelete:
				if sb.key >= r.Op.Key && sb.key < r.Op.Key+r.Op.N {
					explained = true
				}
			case CRange:
				// visitors that delete do so through recorded nested calls
			}
		}
		// possibly expired and lazily deleted / silently dropped by Compute paths
		exp = res.expiryOfStore(sb.rec, w)
		if exp != 0 && exp < w.sim.Now() {
			// expired at the end: removal by DeleteExpired/janitor must have been
			// reported if a callback was in force; lazy deletion is silent
			explained = true
		}
		if !explained {
			res.add("ledger-lost", -1, "v%d stored under k%d by a completed call is neither retrievable nor reported nor possibly replaced: %s", v, sb.key, sb.rec)
		}
	}
}

// callbackInForce: +id if a recording callback was installed for the whole
// extent of r, -1 if certainly none, 0 if it may have changed during r.
func (res *ConcResult) callbackInForce(w *World, r *Rec) int {
	cur := -1
	if w.cbAtCtor != 0 {
		cur = w.cbAtCtor
	}
	for _, q := range w.recs {
		if q.Op.K != CSetCallback {
			continue
		}
		if q.Pending || (q.Ret > r.Call && q.Call < r.Ret) {
			return 0
		}
		if q.Ret <= r.Call {
			if q.Op.N == 0 {
				cur = -1
			} else {
				cur = q.CBID
			}
		}
	}
	return cur
}

func (res *ConcResult) expiryOfStore(r *Rec, w *World) int64 {
	d := r.Op.D
	switch r.Op.K {
	case CSetForever:
		return 0
	case CSetDefault:
		d = sentinelDefault
	}
	if d == sentinelDefault {
		d = w.defAtCtor
	}
	if d > 0 {
		return r.Now + d
	}
	return 0
}

func hasTick(ph *Phase) bool {
	for _, t := range ph.Tasks {
		for _, op := range t {
			if op.K == XTick {
				return true
			}
		}
	}
	return false
}

// checkSweepComplete: a value that was certainly expired before a completed
// DeleteExpired call began, and that is reported as evicted only after that
// call returned, was present and expired during the whole call: the call left
// it behind. Sound under concurrency and with a ticking clock (values are
// unique; a replaced value is never reported; the expiry bound uses the
// latest clock reading the storing call can have seen).
func (res *ConcResult) checkSweepComplete(w *World) {
	if len(w.reports) == 0 {
		return
	}
	type st struct {
		rec *Rec
		eHi int64
	}
	stored := map[int64]st{}
	dup := map[int64]bool{}
	seen := map[int64]int{}
	for _, r := range w.recs {
		// value ids derived inside callbacks and visitors can repeat: an id that
		// any two storing calls carry is ambiguous
		switch r.Op.K {
		case CSet, CSetDefault, CSetForever, CGetOrSet, CGetAndSet, CGetOrCompute, CCompute:
			if r.Op.Val != 0 {
				seen[r.Op.Val]++
				if seen[r.Op.Val] > 1 {
					dup[r.Op.Val] = true
				}
			}
		}
	}
	for _, r := range w.recs {
		if r.Pending {
			continue
		}
		var v, d int64
		switch r.Op.K {
		case CSet, CGetAndSet:
			v, d = r.Op.Val, r.Op.D
		case CGetOrSet:
			if r.Ok {
				continue
			}
			v, d = r.Op.Val, r.Op.D
		default:
			continue
		}
		if v == 0 || d <= 0 || dup[v] {
			continue // the zero value, sentinels / never expiring, ambiguous ids
		}
		hi := r.NowRet
		if hi < r.Now {
			hi = r.Now
		}
		stored[v] = st{r, hi + d}
	}
	// calls that can move the expiry of a stored value without replacing it
	touched := func(s st) bool {
		for _, r := range w.recs {
			switch r.Op.K {
			case CGetAndRefresh, CCompute, CGetOrCompute:
				if r.Op.Key == s.rec.Op.Key && (r.Pending || r.Ret > s.rec.Call) {
					return true
				}
			}
		}
		return false
	}
	for _, d := range w.recs {
		if d.Op.K != CDeleteExpired || d.Pending || d.Nested {
			continue
		}
		for _, rp := range w.reports {
			if rp.Seq <= d.Ret {
				continue
			}
			s, ok := stored[rp.V]
			if !ok || dup[rp.V] || s.rec.Op.Key != rp.K {
				continue
			}
			// the removal happened inside the reporting call, somewhere before
			// the report: that call must have begun after d returned
			if rp.OpIx < 0 || rp.OpIx >= len(w.recs) || w.recs[rp.OpIx].Call <= d.Ret {
				continue
			}
			if s.rec.Ret < d.Call && s.eHi < d.Now && !touched(s) {
				res.add("size-sweep-incomplete", -1, "DeleteExpired %s returned although (k%d,v%d), stored by %s and expired since %d, was still there (it was evicted only later, at seq %d)", d, rp.K, rp.V, s.rec, s.eHi, rp.Seq)
				return
			}
		}
	}
}

func firstLineOf(s string) string {
	if i := strings.IndexByte(s, ';'); i > 0 {
		return s[:i]
	}
	return s
}

// checkClearSurvivors (C08: "Count is 0 right after Clear"; nothing stored
// before a Clear began is counted or found after it returned): a value found by
// the read-out whose storing call had returned before a completed Clear was
// invoked survived that Clear. Values are attributed by their unique ids; the
// zero value and ids stored twice are skipped.
func (res *ConcResult) checkClearSurvivors(recs []*Rec, before, after map[int]keyState, phase int) {
	var clears []*Rec
	for _, r := range recs {
		if (r.Op.K == MClear || r.Op.K == CClear) && !r.Pending {
			clears = append(clears, r)
		}
	}
	if len(clears) == 0 {
		return
	}
	storedBy := map[int64]*Rec{}
	dup := map[int64]bool{}
	for _, r := range recs {
		var v int64
		switch r.Op.K {
		case MStore, MLoadAndStore, CSet, CSetDefault, CSetForever, CGetAndSet:
			v = r.Op.Val
		case MLoadOrStore, MLoadOrCompute, CGetOrSet, CGetOrCompute:
			if r.Pending || r.Ok {
				continue
			}
			v = r.Op.Val
		default:
			continue
		}
		if v == 0 {
			continue
		}
		if _, ok := storedBy[v]; ok {
			dup[v] = true
		}
		storedBy[v] = r
	}
	for k, ks := range after {
		if ks.v == 0 || dup[ks.v] {
			continue
		}
		if r, ok := storedBy[ks.v]; ok {
			if r.Pending || r.Op.Key != k {
				continue
			}
			for _, c := range clears {
				if r.Ret < c.Call {
					res.add("size-clear-survivor", phase, "(k%d,v%d), stored by %s, is still there after %s returned", k, ks.v, r, c)
					return
				}
			}
			continue
		}
		// not stored in this phase: it was there before the phase began
		if b, ok := before[k]; ok && b.v == ks.v {
			res.add("size-clear-survivor", phase, "(k%d,v%d) was stored before the phase and is still there after %s returned", k, ks.v, clears[0])
			return
		}
	}
}

// checkDefaults (C09: "d==DefaultExpiration uses the default in force at the
// moment of the call"): an entry stored with the default TTL while other tasks
// change the default must carry the instant that one of the defaults in force
// during the storing call dictates - never a mixture of two. The clock is
// frozen in the phase and the storing tasks use keys of their own, so every
// stored entry must be found by the read-out.
func (res *ConcResult) checkDefaults(recs []*Rec, ro []*Rec, def0 int64, phase int) {
	var toggles []*Rec
	for _, r := range recs {
		if r.Op.K == CSetDefaultExpiration {
			toggles = append(toggles, r)
		}
	}
	last := map[int]*Rec{} // the last default-TTL store per key (each key belongs to one task)
	for _, r := range recs {
		if r.Nested || r.Pending {
			continue
		}
		switch r.Op.K {
		case CSetDefault:
			last[r.Op.Key] = r
		case CSet, CGetAndSet:
			if r.Op.D == sentinelDefault {
				last[r.Op.Key] = r
			} else {
				delete(last, r.Op.Key)
			}
		default:
			if keyedOp(r.Op.K) {
				delete(last, r.Op.Key)
			}
		}
	}
	for _, g := range ro {
		s, ok := last[g.Op.Key]
		if !ok {
			continue
		}
		// defaults that can have been in force at some moment of s
		var cands []int64
		superseded := func(xRet uint64, xPending bool) bool {
			if xPending {
				return false
			}
			for _, y := range toggles {
				if !y.Pending && y.Call > xRet && y.Ret < s.Call {
					return true
				}
			}
			return false
		}
		if !superseded(0, false) {
			cands = append(cands, def0)
		}
		for _, x := range toggles {
			if x.Call < s.Ret && !superseded(x.Ret, x.Pending) {
				cands = append(cands, x.Op.D)
			}
		}
		okExp := false
		var wants []int64
		for _, d := range cands {
			e := int64(0)
			if d > 0 {
				e = s.Now + d
			}
			wants = append(wants, e)
			if g.Ok && g.Val == s.Op.Val && g.Exp == e {
				okExp = true
			}
		}
		if !okExp {
			res.add("expiry-default", phase, "%s stored with the default TTL (defaults in force during the call: %v, admissible instants %v) but the read-out says %s", s, cands, wants, g)
			return
		}
	}
}
