package main

import (
	"fmt"
	"sort"

	"github.com/fufuok/cache/verifsim/bridge"
	"github.com/fufuok/cache/verifsim/simrt"
)

// Sequential scenarios: one client task drives one or two instances through a
// generated call sequence under the virtual clock; janitors are background
// tasks that run to quiescence at every delivered tick.

type InstCfg struct {
	Kind     string    `json:"kind"`
	Hasher   string    `json:"hasher,omitempty"`
	HashMode string    `json:"hash_mode"`
	CollideN int       `json:"collide_n,omitempty"`
	MinLen   int       `json:"min_len"`
	MinCap   int       `json:"min_cap_floor,omitempty"`
	Presize  int       `json:"presize"`
	UsePre   bool      `json:"use_presized"`
	Ctor     CacheCtor `json:"ctor"`
	PreClear int       `json:"pre_clear"` // fill this many keys and Clear before the sequence
	SeedTag  uint64    `json:"seed_tag"`
}

type SeqScenario struct {
	Prop        string   `json:"prop"`
	Family      string   `json:"family"` // map | cache
	Mode        string   `json:"mode"`   // model | twin | sibling
	A           InstCfg  `json:"a"`
	B           *InstCfg `json:"b,omitempty"`
	Epoch       int64    `json:"epoch"`
	CBKind      int      `json:"cb_kind"`
	Ops         []Op     `json:"ops"`
	SchedSeed   uint64   `json:"sched_seed"`
	HashMode    string   `json:"hash_mode"`
	Replay      []uint16 `json:"replay,omitempty"`
	ReplayRLE   string   `json:"replay_rle,omitempty"`
	JanitorOnly bool     `json:"janitor_only,omitempty"` // C15a: the program only advances the clock and polls Count
}

func (s *SeqScenario) note(w *WorkerOut) {
	w.Kinds[s.A.Kind]++
	hm := s.A.HashMode
	if hm == "collide" {
		hm += fmt.Sprint(s.A.CollideN)
	}
	w.HashModes[hm]++
	w.Knobs[fmt.Sprintf("minlen:%d", s.A.MinLen)]++
	w.Strategies["sequential"]++
}

type inst struct {
	cfg   *InstCfg
	w     *World
	seeds *simrt.RNG
	mode  simrt.HashMode
	zt    bool // extreme-value hash variant: one setting per scenario (background tasks of both instances hash under whichever instance was used last)
}

func hashModeOf(s string) simrt.HashMode {
	switch s {
	case "native":
		return simrt.HashNative
	case "collide":
		return simrt.HashCollide
	case "split":
		return simrt.HashSplit
	}
	return simrt.HashDet
}

func (in *inst) use() {
	simrt.UseHash(in.mode, in.cfg.CollideN, in.seeds)
	// the extreme-value variant of the deterministic modes (see setHash): a
	// function of the instance, never left over from an earlier case
	simrt.SetHashZeroTop(in.zt)
}

type SeqResult struct {
	Violations []Violation
	Outcome    simrt.Outcome
	TraceHash  uint64
	Decisions  []uint16
	Steps      uint64
	SimTime    int64
	Probes     map[string]int
	NonTrivial bool
	History    []string
	Diverged   bool
	Panic      string
}

func (r *SeqResult) add(rule string, f string, a ...interface{}) {
	r.Violations = append(r.Violations, Violation{rule, 0, fmt.Sprintf(f, a...)})
}

// RunSeq executes a sequential scenario.
func RunSeq(sc *SeqScenario) *SeqResult {
	res := &SeqResult{Probes: map[string]int{}}
	sim := simrt.New(simrt.Config{Seed: sc.SchedSeed, Strategy: simrt.StrategyConfig{Kind: "random"}, Epoch: sc.Epoch, StepBudget: 800000000, Replay: sc.Replay}) // watchdog only
	defer sim.Close()
	defer bridge.SetMinTableLen(32)
	cacheFam := sc.Family == "cache"
	mk := func(cfg *InstCfg) *inst {
		in := &inst{cfg: cfg, seeds: simrt.NewRNG(cfg.SeedTag, 0x7AB1E5EED), mode: hashModeOf(cfg.HashMode)}
		in.zt = sc.A.HashMode != "native" && sc.A.HashMode != "collide" && (sc.B == nil || sc.B.HashMode == sc.A.HashMode) && simrt.Mix64(sc.A.SeedTag^0x70B0)%6 == 0
		in.use()
		ml := cfg.MinLen
		if ml <= 0 {
			ml = 32
		}
		if !bridge.SetMinTableLen(ml) && ml != 32 {
			res.Probes["knob_unavailable"]++
		}
		in.w = &World{sim: sim}
		if cfg.MinCap > 0 {
			bridge.SetMinCapacity(cfg.MinCap)
			defer bridge.SetMinCapacity(96)
		}
		if cacheFam {
			var cb func(int, int64)
			if sc.CBKind > 0 && cfg.Ctor.CB && cfg.Ctor.Ctor != "plain" {
				cb, in.w.cbAtCtor = in.w.callback(sc.CBKind)
			}
			in.w.c = NewCacheKind(cfg.Ctor, cb)
			in.w.defAtCtor, _ = cfg.Ctor.Effective()
		} else {
			in.w.m = NewMapKind(cfg.Kind, cfg.Hasher, cfg.Presize, cfg.UsePre)
		}
		bridge.SetMinTableLen(32)
		return in
	}
	insts := []*inst{mk(&sc.A)}
	if sc.B != nil {
		insts = append(insts, mk(sc.B))
	}
	cntBefore := []map[int]int{{}, {}}
	cntAfter := []map[int]int{{}, {}}
	bgAtStart := sim.BackgroundTasks()
	res.Probes["janitor_tasks"] = bgAtStart

	sim.Spawn("client", func() {
		for _, in := range insts {
			if in.cfg.PreClear > 0 {
				in.use()
				if cacheFam {
					for i := 0; i < in.cfg.PreClear; i++ {
						in.w.c.Set(3000+i, int64(800000+i), 0)
					}
					in.w.c.Clear()
				} else {
					for i := 0; i < in.cfg.PreClear; i++ {
						in.w.m.Store(3000+i, int64(800000+i))
					}
					in.w.m.Clear()
				}
			}
		}
		for _, op := range sc.Ops {
			if op.K == XAdvance {
				yieldUser()
				call, now := sim.Seq, sim.Now()
				adv := make([]*Rec, len(insts))
				for ii, in := range insts {
					r := &Rec{Task: in.w.curTaskID(), Ix: len(in.w.recs), Op: op, Call: call, Now: now}
					in.w.recs = append(in.w.recs, r)
					adv[ii] = r
					if cacheFam {
						in.use()
						cntBefore[ii][r.Ix] = in.w.c.Count()
					}
				}
				t0 := len(sim.TickLog)
				mt := op.N
				if mt <= 0 {
					mt = 3
				}
				sim.Advance(op.D, true, mt)
				yieldUser()
				ret := sim.Seq
				for ii, in := range insts {
					r := adv[ii]
					r.Ret = ret
					r.N = len(sim.TickLog) - t0
					if r.N > 0 {
						r.TTL, r.Exp = sim.TickLog[t0], sim.TickLog[len(sim.TickLog)-1]
						r.Ticks = append([]int64(nil), sim.TickLog[t0:]...)
					}
					if cacheFam {
						in.use()
						cntAfter[ii][r.Ix] = in.w.c.Count()
					}
				}
				continue
			}
			// a call during which the clock moves (slow visitor / user function):
			// the second instance of a twin run must see the same clock schedule,
			// so the clock is set back before its call (possible without timers)
			rewind := len(insts) == 2 && (op.Adv > 0 || op.Vis == VisAdvance) && sim.BackgroundTasks() == 0
			t0, tA := sim.Now(), int64(0)
			for ii, in := range insts {
				if rewind && ii == 1 {
					tA = sim.Now()
					sim.Advance(t0-tA, false, 0)
				}
				in.use()
				if cacheFam {
					measure := op.K == CDelete || op.K == CGetAndDelete || op.K == CDeleteExpired
					ix := len(in.w.recs)
					if measure {
						cntBefore[ii][ix] = in.w.c.Count()
					}
					in.w.ExecCache(op, false)
					if measure {
						cntAfter[ii][ix] = in.w.c.Count()
					}
				} else {
					in.w.ExecMap(op, false)
				}
			}
			if rewind && sim.Now() < tA {
				sim.Advance(tA-sim.Now(), false, 0)
			}
		}
	})
	out := sim.Run()
	sim.WaitFin()
	res.Outcome = out
	res.TraceHash = sim.TraceHash
	res.Decisions = append([]uint16(nil), sim.Decisions...)
	res.Steps = sim.Seq
	res.SimTime = sim.SimTime
	res.Diverged = sim.Diverged
	res.Probes["ticks_sent"] += int(sim.TicksSent)
	res.Probes["ticks_dropped"] += int(sim.TicksDrop)
	for _, t := range sim.Tasks() {
		if t.PanicText != "" {
			res.Panic = t.PanicText
		}
	}
	for ii, in := range insts {
		tag := string(rune('A' + ii))
		for _, r := range in.w.recs {
			res.History = append(res.History, tag+" "+r.String())
		}
		for _, rp := range in.w.reports {
			res.History = append(res.History, fmt.Sprintf("%s report cb%d (k%d,v%d) task=%d seq=%d", tag, rp.CB, rp.K, rp.V, rp.Task, rp.Seq))
		}
		if in.w.m != nil {
			if st, ok := bridge.StatsOf(in.w.m.Raw()); ok {
				res.Probes["grows"] += int(st.Growths)
				res.Probes["shrinks"] += int(st.Shrinks)
				if st.TotalBuckets > st.RootBuckets {
					res.Probes["chained_buckets"] += st.TotalBuckets - st.RootBuckets
				}
			}
		}
	}
	switch out {
	case simrt.OutDeadlock:
		res.add("deadlock", "%s", sim.Explain)
		return res
	case simrt.OutLivelock:
		res.add("livelock", "%s", sim.Explain)
		return res
	case simrt.OutPanic:
		res.add("panic", "%s\n%s", sim.Explain, res.Panic)
		return res
	case simrt.OutBudget:
		res.add("budget", "%s", sim.Explain)
		return res
	}

	// ---- oracles ----
	switch sc.Mode {
	case "model":
		if cacheFam {
			in := insts[0]
			def, _ := sc.A.Ctor.Effective()
			m := newTTLModel(def, in.w.cbAtCtor, sc.Epoch)
			_, m.interval = sc.A.Ctor.Effective()
			ctx := &seqCtx{m: m, recs: in.w.recs, reports: in.w.reports, cntBefore: cntBefore[0], cntAfter: cntAfter[0]}
			ctx.checkTop()
			res.Violations = append(res.Violations, ctx.bad...)
			res.NonTrivial = m.touchedExpired > 0 || m.boundaryHits > 0
			res.Probes["touched_expired"] += m.touchedExpired
			res.Probes["boundary_hits"] += m.boundaryHits
			res.Probes["approx_stores"] += m.approxStores
			res.Probes["reports"] += len(in.w.reports)
			// (how many goroutines a constructor starts is not pinned: a janitor that
			// is not configured shows by a pass that runs or a Count that drops, a
			// configured one that does not work by an entry still there two
			// intervals after its instant)
		} else {
			res.checkMapSeq(insts[0].w.recs, "A")
			res.NonTrivial = res.Probes["grows"]+res.Probes["shrinks"] > 0
		}
	case "twin", "sibling":
		a, b := insts[0], insts[1]
		res.compareInstances(a.w, b.w, sc)
		if !cacheFam {
			res.checkMapSeq(a.w.recs, "A")
			res.checkMapSeq(b.w.recs, "B")
			res.NonTrivial = res.Probes["grows"]+res.Probes["shrinks"] > 0
		} else {
			res.NonTrivial = len(a.w.reports) > 0 || res.Probes["ticks_sent"] > 0
		}
	}
	return res
}

// checkMapSeq compares a sequential Map/MapOf run with a builtin map.
func (res *SeqResult) checkMapSeq(recs []*Rec, tag string) {
	ref := map[int]int64{}
	tree := buildTree(recs)
	var check func(r *Rec)
	check = func(r *Rec) {
		op := r.Op
		k := op.Key
		cur, present := ref[k]
		bad := func(f string, a ...interface{}) {
			res.add("model", "%s: %s: %s", tag, fmt.Sprintf(f, a...), r)
		}
		kids := tree.kids[r]
		switch op.K {
		case MLoad:
			if r.Ok != present || r.Val != cur {
				bad("Load wants (v%d,%v)", cur, present)
			}
		case MStore:
			ref[k] = op.Val
		case MLoadOrStore, MLoadOrCompute:
			if present {
				if !r.Ok || r.Val != cur {
					bad("wants (v%d,true)", cur)
				}
				if op.K == MLoadOrCompute && r.FnCalls != 0 {
					res.add("fn-calls", "%s: valueFn ran although the key is present: %s", tag, r)
				}
			} else {
				if r.Ok || r.Val != op.Val {
					bad("wants (v%d,false)", op.Val)
				}
				if op.K == MLoadOrCompute && r.FnCalls != 1 {
					res.add("fn-calls", "%s: valueFn ran %d times for a storing call: %s", tag, r.FnCalls, r)
				}
				ref[k] = op.Val
			}
		case MLoadAndStore:
			if present {
				if !r.Ok || r.Val != cur {
					bad("wants (v%d,true)", cur)
				}
			} else if r.Ok {
				bad("wants loaded=false")
			}
			ref[k] = op.Val
		case MCompute:
			if r.FnCalls != 1 {
				res.add("fn-calls", "%s: Compute function ran %d times: %s", tag, r.FnCalls, r)
			} else if r.FnLoaded != present || r.FnOld != cur {
				bad("Compute function was handed (v%d,%v), the state is (v%d,%v)", r.FnOld, r.FnLoaded, cur, present)
			}
			nv, del := fnResult(op, cur, present)
			if del {
				if r.Ok {
					bad("Compute with delete=true wants ok=false")
				}
				delete(ref, k)
			} else {
				if !r.Ok || r.Val != nv {
					bad("Compute wants (v%d,true)", nv)
				}
				ref[k] = nv
			}
		case MLoadAndDelete:
			if r.Ok != present || r.Val != cur {
				bad("LoadAndDelete wants (v%d,%v)", cur, present)
			}
			delete(ref, k)
		case MDelete:
			delete(ref, k)
		case MClear:
			ref = map[int]int64{}
		case MSize:
			if r.N != len(ref) {
				res.add("size", "%s: Size()=%d, the map holds %d keys: %s", tag, r.N, len(ref), r)
			}
		case XBulkInsert:
			for i := 0; i < op.N; i++ {
				ref[op.Key+i] = op.Val + int64(i)
			}
		case XBulkDelete:
			for i := 0; i < op.N; i++ {
				delete(ref, op.Key+i)
			}
		case MRange:
			before := map[int]int64{}
			for kk, v := range ref {
				before[kk] = v
			}
			for _, q := range kids {
				check(q)
			}
			wrote, removed := effectsInside(tree.descendants(r, nil), before)
			seen := map[int]bool{}
			for _, kv := range r.Visits {
				if seen[kv.K] {
					res.add("range-dup", "%s: key k%d visited twice: %s", tag, kv.K, r)
				}
				seen[kv.K] = true
				if v0, ok := before[kv.K]; ok && v0 == kv.V {
					continue
				}
				if wrote[kv.K][kv.V] {
					continue
				}
				res.add("range-phantom", "%s: visited (k%d,v%d) which was never current during the traversal: %s", tag, kv.K, kv.V, r)
			}
			if op.Stop > 0 && len(r.Visits) > op.Stop {
				res.add("range-stop", "%s: visitor returned false after %d visits but was called %d times", tag, op.Stop, len(r.Visits))
			}
			stopped := op.Stop > 0 && len(r.Visits) >= op.Stop
			if !stopped {
				for kk, v := range before {
					if !seen[kk] && !removed[kk] {
						res.add("range-missed", "%s: pair (k%d,v%d) was not visited: %s", tag, kk, v, r)
					}
				}
			}
			if op.Stop > 0 && len(kids) == 0 && len(before) >= op.Stop && len(r.Visits) != op.Stop {
				res.add("range-stop", "%s: visitor stops after %d visits, %d pairs, %d visits happened", tag, op.Stop, len(before), len(r.Visits))
			}
			return
		case XPass:
		}
		for _, q := range kids {
			check(q)
		}
	}
	for _, r := range tree.tops {
		check(r)
	}
}

// compareInstances: twins and siblings must agree on every return value, on
// every callback report (as a multiset per removing call), on traversal
// results as sets, and on Count/Size.
func (res *SeqResult) compareInstances(a, b *World, sc *SeqScenario) {
	ra, rb := topLevel(a.recs), topLevel(b.recs)
	if len(ra) != len(rb) {
		res.add("twin", "the instances executed %d and %d top-level calls", len(ra), len(rb))
		return
	}
	for i := range ra {
		x, y := ra[i], rb[i]
		diff := ""
		switch {
		case x.Val != y.Val || x.Ok != y.Ok:
			diff = "result"
		case x.Exp != y.Exp || x.TTL != y.TTL:
			diff = "expiration"
			if x.Op.K == XAdvance {
				diff = ""
			}
		case x.N != y.N:
			diff = "count"
		case x.FnCalls != y.FnCalls || x.FnOld != y.FnOld || x.FnLoaded != y.FnLoaded:
			diff = "user function arguments"
		}
		if diff == "" && (x.Op.K == MRange || x.Op.K == CRange || x.Op.K == CItems) {
			stopped := x.Op.Stop > 0
			if len(x.Visits) != len(y.Visits) {
				diff = "number of visits"
			} else if !stopped && !sameKVSet(x.Visits, y.Visits) && x.Op.Vis == VisPlain {
				diff = "visited set"
			}
		}
		if diff == "" && sc.CBKind == 4 {
			// what observer callbacks saw from inside the call, as a multiset
			na, nb := nestedWithin(a, x), nestedWithin(b, y)
			if !sameStrings(na, nb) {
				diff = fmt.Sprintf("what the callbacks observed (%v vs %v)", na, nb)
			}
		}
		if diff == "" {
			// reports fired inside the call, as a multiset
			pa, pb := reportsWithin(a, x), reportsWithin(b, y)
			if !sameKVSet(pa, pb) {
				diff = fmt.Sprintf("evicted callbacks (%v vs %v)", pa, pb)
			}
		}
		if diff != "" {
			res.add("twin", "call #%d differs in %s:\n  A %s\n  B %s", i, diff, x, y)
			return
		}
	}
}

func nestedWithin(w *World, r *Rec) []string {
	var out []string
	for _, q := range w.recs {
		if q.Nested && q.Call > r.Call && q.Ret != 0 && q.Ret < r.Ret {
			out = append(out, fmt.Sprintf("%s(k%d)->(v%d,%v,n=%d)", q.Op.K, q.Op.Key, q.Val, q.Ok, q.N))
		}
	}
	sort.Strings(out)
	return out
}

func sameStrings(a, b []string) bool {
	if len(a) != len(b) {
		return false
	}
	for i := range a {
		if a[i] != b[i] {
			return false
		}
	}
	return true
}

func topLevel(recs []*Rec) []*Rec {
	var out []*Rec
	for _, r := range recs {
		if !r.Nested {
			out = append(out, r)
		}
	}
	return out
}

func reportsWithin(w *World, r *Rec) []KV {
	var out []KV
	for _, rp := range w.reports {
		if rp.Seq > r.Call && rp.Seq < r.Ret {
			out = append(out, KV{rp.K, rp.V})
		}
	}
	return out
}

func sameKVSet(a, b []KV) bool {
	if len(a) != len(b) {
		return false
	}
	x := append([]KV(nil), a...)
	y := append([]KV(nil), b...)
	less := func(s []KV) func(i, j int) bool {
		return func(i, j int) bool {
			if s[i].K != s[j].K {
				return s[i].K < s[j].K
			}
			return s[i].V < s[j].V
		}
	}
	sort.Slice(x, less(x))
	sort.Slice(y, less(y))
	for i := range x {
		if x[i] != y[i] {
			return false
		}
	}
	return true
}

func executeSeq(c *Case) *Outcome {
	res := RunSeq(c.Seq)
	o := &Outcome{TraceHash: res.TraceHash, NonTrivial: res.NonTrivial, Probes: res.Probes, Steps: res.Steps,
		SimTime: res.SimTime, Decisions: res.Decisions, History: res.History, Diverged: res.Diverged}
	for _, v := range res.Violations {
		switch {
		case v.Rule == "budget":
			o.Watchdog = v.Detail
		case ownedSeq(c.Property, v.Rule):
			o.Violations = append(o.Violations, v)
		default:
			if v.Rule == "deadlock" || v.Rule == "livelock" || v.Rule == "panic" {
				o.Aborted = v.Rule
			}
			o.Other = append(o.Other, v)
		}
	}
	return o
}

var ownedSeqRules = map[string][]string{
	"C01": {"model", "range-", "panic"},
	"C09": {"expiry", "model", "panic"},
	"C06": {"ledger-", "panic"},
	"C07": {"range-", "panic"},
	"C08": {"size", "panic"},
	"C11": {"model", "twin", "size", "range-", "panic"},
	"C12": {"twin", "panic"},
	"C15": {"janitor-", "ledger-", "size", "panic"},
	"C13": {"deadlock", "livelock"},
	"C05": {"fn-calls", "panic"},
}

func ownedSeq(prop, rule string) bool {
	for _, p := range ownedSeqRules[prop] {
		if rule == p || (len(p) > 0 && p[len(p)-1] == '-' && len(rule) >= len(p) && rule[:len(p)] == p) {
			return true
		}
	}
	return false
}
