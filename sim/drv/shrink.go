package main

import (
	"encoding/json"
	"fmt"
	"sort"
	"strings"
	"time"

	"github.com/fufuok/cache/verifsim/simrt"
)

func cloneCase(c *Case) *Case {
	b, _ := json.Marshal(c)
	var d Case
	json.Unmarshal(b, &d)
	return &d
}

func hasRule(o *Outcome, rule string) bool {
	for _, v := range o.Violations {
		if v.Rule == rule {
			return true
		}
	}
	return false
}

// shrinkCase minimises a failing case by delta debugging: every candidate is
// re-executed and counts only if it violates the same rule.
func shrinkCase(c *Case, o *Outcome, rule string) (*Case, *Outcome) {
	if c.Conc == nil {
		if c.Seq != nil {
			return shrinkSeq(c, o, rule)
		}
		return c, o
	}
	best, bo := cloneCase(c), o
	budget := 600
	deadline := time.Now().Add(60 * time.Second)
	// try a candidate under several schedule sources
	try := func(cand *Case) (*Case, *Outcome) {
		variants := []func(*ConcScenario){
			func(s *ConcScenario) { s.Replay = nil },
			func(s *ConcScenario) { s.Replay = bo.Decisions },
			func(s *ConcScenario) { s.Replay = nil; s.SchedSeed = simrt.Mix64(s.SchedSeed + 1) },
			func(s *ConcScenario) { s.Replay = nil; s.SchedSeed = simrt.Mix64(s.SchedSeed + 2) },
		}
		for _, v := range variants {
			if budget <= 0 || time.Now().After(deadline) {
				budget = 0
				return nil, nil
			}
			budget--
			x := cloneCase(cand)
			v(x.Conc)
			xo := Execute(x)
			if hasRule(xo, rule) && xo.Watchdog == "" {
				// keep the violation of the wanted rule first
				sort.SliceStable(xo.Violations, func(i, j int) bool { return xo.Violations[i].Rule == rule && xo.Violations[j].Rule != rule })
				return x, xo
			}
		}
		return nil, nil
	}
	accept := func(cand *Case) bool {
		if x, xo := try(cand); x != nil {
			best, bo = x, xo
			return true
		}
		return false
	}
	// 1. cut phases after the violating one
	for _, v := range bo.Violations {
		if v.Rule == rule && v.Phase >= 0 && v.Phase+1 < len(best.Conc.Phases) {
			cand := cloneCase(best)
			cand.Conc.Phases = cand.Conc.Phases[:v.Phase+1]
			accept(cand)
			break
		}
	}
	changed := true
	for changed && budget > 0 {
		changed = false
		// 2. drop whole phases (from the front)
		for len(best.Conc.Phases) > 1 {
			cand := cloneCase(best)
			cand.Conc.Phases = cand.Conc.Phases[1:]
			if !accept(cand) {
				break
			}
			changed = true
		}
		// 3. drop tasks
		for pi := 0; pi < len(best.Conc.Phases); pi++ {
			for ti := len(best.Conc.Phases[pi].Tasks) - 1; ti >= 0; ti-- {
				ph := best.Conc.Phases[pi]
				if ph.Stall != nil && ph.Stall.Task == ti {
					continue
				}
				if len(ph.Tasks) <= 1 {
					break
				}
				cand := cloneCase(best)
				cp := &cand.Conc.Phases[pi]
				cp.Tasks = append(cp.Tasks[:ti:ti], cp.Tasks[ti+1:]...)
				if cp.Stall != nil && cp.Stall.Task > ti {
					cp.Stall.Task--
				}
				var opt []int
				for _, x := range cp.Optional {
					if x == ti {
						continue
					}
					if x > ti {
						x--
					}
					opt = append(opt, x)
				}
				cp.Optional = opt
				var dl []DelayCfg
				for _, d := range cp.Delays {
					if d.Task == ti {
						continue
					}
					if d.Task > ti {
						d.Task--
					}
					dl = append(dl, d)
				}
				cp.Delays = dl
				if accept(cand) {
					changed = true
				}
			}
		}
		// 4. drop operations
		for pi := 0; pi < len(best.Conc.Phases); pi++ {
			for ti := 0; ti < len(best.Conc.Phases[pi].Tasks); ti++ {
				for oi := len(best.Conc.Phases[pi].Tasks[ti]) - 1; oi >= 0; oi-- {
					if len(best.Conc.Phases[pi].Tasks[ti]) <= 1 {
						break
					}
					cand := cloneCase(best)
					t := cand.Conc.Phases[pi].Tasks[ti]
					cand.Conc.Phases[pi].Tasks[ti] = append(t[:oi:oi], t[oi+1:]...)
					if accept(cand) {
						changed = true
					}
				}
			}
		}
		// 5. set-up, prefill, delays
		for oi := len(best.Conc.Setup) - 1; oi >= 0; oi-- {
			cand := cloneCase(best)
			cand.Conc.Setup = append(cand.Conc.Setup[:oi:oi], cand.Conc.Setup[oi+1:]...)
			if accept(cand) {
				changed = true
			}
		}
		if best.Conc.Prefill > 0 {
			cand := cloneCase(best)
			cand.Conc.Prefill = 0
			cand.Conc.PrefillKeep = -1
			if accept(cand) {
				changed = true
			} else {
				cand = cloneCase(best)
				cand.Conc.Prefill /= 2
				if cand.Conc.PrefillKeep > cand.Conc.Prefill {
					cand.Conc.PrefillKeep = -1
				}
				if accept(cand) {
					changed = true
				}
			}
		}
		for pi := range best.Conc.Phases {
			if len(best.Conc.Phases[pi].Delays) > 0 {
				cand := cloneCase(best)
				cand.Conc.Phases[pi].Delays = nil
				if accept(cand) {
					changed = true
				}
			}
		}
	}
	// 6. simplify the schedule: merge slices to remove context switches
	best.Conc.Replay = bo.Decisions
	if xo := Execute(cloneCase(best)); hasRule(xo, rule) {
		dec := append([]uint16(nil), bo.Decisions...)
		for pass := 0; pass < 3 && budget > 0; pass++ {
			for i := 1; i < len(dec) && budget > 0; i++ {
				if dec[i] == dec[i-1] || dec[i]&0x8000 != 0 || dec[i-1]&0x8000 != 0 {
					continue
				}
				// extend the previous slice over the next one
				j := i
				for j < len(dec) && dec[j] == dec[i] {
					j++
				}
				nd := append([]uint16(nil), dec...)
				for k := i; k < j; k++ {
					nd[k] = dec[i-1]
				}
				budget--
				cand := cloneCase(best)
				cand.Conc.Replay = nd
				xo := Execute(cand)
				if hasRule(xo, rule) {
					dec = xo.Decisions
					best, bo = cand, xo
					best.Conc.Replay = dec
				}
			}
		}
	} else {
		best.Conc.Replay = nil
	}
	best.Minimised = true
	return best, bo
}

// signatureOf: rule + container family + the operation kinds of the minimised
// program (sorted, de-duplicated).
func signatureOf(c *Case, o *Outcome) string {
	kinds := map[string]bool{}
	fam := ""
	if c.Conc != nil {
		fam = c.Conc.Family
		for _, ph := range c.Conc.Phases {
			for _, t := range ph.Tasks {
				for _, op := range t {
					kinds[op.K.String()] = true
				}
			}
		}
	}
	if c.Seq != nil {
		fam = c.Seq.Family
		for _, op := range c.Seq.Ops {
			kinds[op.K.String()] = true
		}
	}
	if c.Special != nil {
		fam = c.Special.Kind
	}
	var ks []string
	for k := range kinds {
		ks = append(ks, k)
	}
	sort.Strings(ks)
	rule := ""
	if len(o.Violations) > 0 {
		rule = o.Violations[0].Rule
	}
	return fmt.Sprintf("%s/%s: %s [%s]", c.Property, rule, fam, strings.Join(ks, ","))
}

// encodeRLE / decodeRLE: readable form of a schedule.
func encodeRLE(d []uint16) string {
	var sb strings.Builder
	for i := 0; i < len(d); {
		j := i
		for j < len(d) && d[j] == d[i] {
			j++
		}
		if sb.Len() > 0 {
			sb.WriteByte(' ')
		}
		switch {
		case d[i]&0x8000 != 0:
			fmt.Fprintf(&sb, "S%d", d[i]&0x3fff)
		case d[i]&0x4000 != 0:
			fmt.Fprintf(&sb, "R%d", d[i]&0x3fff)
		default:
			fmt.Fprintf(&sb, "%dx%d", d[i], j-i)
		}
		i = j
	}
	return sb.String()
}

func decodeRLE(s string) []uint16 {
	var out []uint16
	for _, tok := range strings.Fields(s) {
		var t, n int
		switch {
		case tok[0] == 'S':
			fmt.Sscanf(tok[1:], "%d", &t)
			out = append(out, uint16(t)|0x8000)
		case tok[0] == 'R':
			fmt.Sscanf(tok[1:], "%d", &t)
			out = append(out, uint16(t)|0x4000)
		default:
			fmt.Sscanf(tok, "%dx%d", &t, &n)
			for k := 0; k < n; k++ {
				out = append(out, uint16(t))
			}
		}
	}
	return out
}
