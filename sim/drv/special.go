package main

import (
	"fmt"
	"math"
	"os"
	"path/filepath"
	"regexp"
	"runtime"
	"sort"
	"strings"
	"sync/atomic"
	"time"
	"unsafe"

	cache "github.com/fufuok/cache"
	"github.com/fufuok/cache/verifsim/bridge"
	"github.com/fufuok/cache/verifsim/simrt"
)

// SpecialCase covers the scenarios that are neither a concurrent nor a
// sequential API program: the key-type catalogue (C10) and drop+GC (C15b).
type SpecialCase struct {
	Kind          string `json:"kind"` // "keys" | "gc"
	NonReplayable bool   `json:"non_replayable"`
	Race          bool   `json:"race,omitempty"` // C14: the gc scenario under the race detector (finalizer goroutine vs janitor)
	Seed          uint64 `json:"seed"`
	KeyType       int    `json:"key_type"`
	KeyName       string `json:"key_name"` // authoritative (the index shifts when the catalogue grows)
	HashMode      string `json:"hash_mode"`
	CollideN      int    `json:"collide_n"`
	MinLen        int    `json:"min_len"`
	UseCache      bool   `json:"use_cache"`
	ConstHasher   bool   `json:"const_hasher,omitempty"`
	Ops           int    `json:"ops"`
	Caches        int    `json:"caches"`
}

func executeSpecial(c *Case) *Outcome {
	switch c.Special.Kind {
	case "keys":
		return runKeys(c.Special)
	case "gc":
		return runGC(c.Special)
	}
	panic("driver: unknown special case " + c.Special.Kind)
}

// ---------------------------------------------------------------------------
// C10: keys are matched by Go equality for every comparable key type

type pad struct {
	A int8
	B int64
}
type nested struct {
	P pad
	S string
	F float64
}
type blank struct {
	X int32
	_ int32
	Y int32
}
type withIface struct {
	I any
	N int
}
type strN struct {
	S string
	N int
}
type ptrBox struct{ P *int }

type myStringer int

func (m myStringer) String() string { return fmt.Sprint(int(m)) }

type keyType struct {
	name string
	run  func(sp *SpecialCase, r *simrt.RNG) []string
}

// pools: values with equal-but-differently-built members
func padWithGarbage(a int8, b int64, garbage byte) pad {
	var p pad
	bs := (*[unsafe.Sizeof(pad{})]byte)(unsafe.Pointer(&p))
	for i := range bs {
		bs[i] = garbage
	}
	p.A, p.B = a, b
	return p
}

func strFrom(parts ...string) string {
	var sb strings.Builder
	for _, p := range parts {
		sb.WriteString(p)
	}
	return sb.String()
}

var (
	ptrTargets [4]int
	chans      = [3]chan int{make(chan int), make(chan int, 1), make(chan int)}
)

var negZero = math.Copysign(0, -1)

func anyPool() []any {
	s1 := strFrom("ab", "c")
	p := &ptrTargets[0]
	var nilp *int
	return []any{nil, 1, int(1), int8(1), int64(1), uint(1), "abc", s1, "", 0.0, negZero, 1.5, float32(0), true, false,
		p, &ptrTargets[0], &ptrTargets[1], nilp, chans[0], chans[1], [2]int{1, 2}, [2]int{1, 2}, [2]string{"a", ""},
		pad{1, 2}, padWithGarbage(1, 2, 0xAA), padWithGarbage(1, 2, 0x55), strN{"x", 1}, strN{strFrom("x"), 1},
		nested{pad{1, 2}, "q", 0}, nested{padWithGarbage(1, 2, 0xFF), strFrom("q"), negZero},
		withIface{1, 2}, withIface{nil, 2}, withIface{"s", 2}, myStringer(3), complex(0, negZero), complex(0, 0),
		unsafe.Pointer(&ptrTargets[2]), unsafe.Pointer(nil), uintptr(7), struct{}{}, [0]int{},
		// pointer-shaped composite values are stored directly in the interface word too
		ptrBox{&ptrTargets[3]}, ptrBox{&ptrTargets[3]}, ptrBox{nil}, [1]*int{&ptrTargets[3]}, [1]*int{nil}, [1]*int{&ptrTargets[1]},
		struct{ C chan int }{chans[2]}, struct{ C chan int }{nil}}
}

func mutatePointees(r *simrt.RNG) {
	for i := range ptrTargets {
		ptrTargets[i] = int(r.Uint64())
	}
}

var keyCatalogue []keyType

func addKeyType[K comparable](name string, pool func() []K) {
	keyCatalogue = append(keyCatalogue, keyType{name, func(sp *SpecialCase, r *simrt.RNG) []string {
		return runKeyType[K](name, pool(), sp, r)
	}})
}

func init() {
	addKeyType("string", func() []string {
		return []string{"", "a", "abc", strFrom("ab", "c"), strFrom("", ""), "k1", "k2", "\x00", "a\x00"}
	})
	addKeyType("int", func() []int { return []int{0, 1, -1, 2, math.MaxInt64, math.MinInt64, 32, 64} })
	addKeyType("int8", func() []int8 { return []int8{0, 1, -1, 127, -128} })
	addKeyType("int16", func() []int16 { return []int16{0, 1, -1, 32767} })
	addKeyType("int32", func() []int32 { return []int32{0, 1, -1, math.MaxInt32} })
	addKeyType("int64", func() []int64 { return []int64{0, 1, -1, math.MaxInt64, 1 << 32} })
	addKeyType("uint", func() []uint { return []uint{0, 1, math.MaxUint64, 1 << 63} })
	addKeyType("uint8", func() []uint8 { return []uint8{0, 1, 255} })
	addKeyType("uint16", func() []uint16 { return []uint16{0, 1, 65535} })
	addKeyType("uint32", func() []uint32 { return []uint32{0, 1, math.MaxUint32} })
	addKeyType("uint64", func() []uint64 { return []uint64{0, 1, math.MaxUint64} })
	addKeyType("uintptr", func() []uintptr { return []uintptr{0, 1, 4096} })
	addKeyType("float64", func() []float64 {
		return []float64{0, negZero, 1, -1, math.Inf(1), math.Inf(-1), math.SmallestNonzeroFloat64, 0.1 + 0.2, 0.3}
	})
	addKeyType("float32", func() []float32 { return []float32{0, float32(negZero), 1, -1, float32(math.Inf(1))} })
	addKeyType("complex128", func() []complex128 {
		return []complex128{0, complex(negZero, 0), complex(0, negZero), complex(negZero, negZero), 1i, 1}
	})
	addKeyType("complex64", func() []complex64 { return []complex64{0, complex(float32(negZero), 0), 1i, 1} })
	addKeyType("bool", func() []bool { return []bool{true, false} })
	addKeyType("*int", func() []*int { return []*int{nil, &ptrTargets[0], &ptrTargets[1], &ptrTargets[2], &ptrTargets[0]} })
	addKeyType("unsafe.Pointer", func() []unsafe.Pointer {
		return []unsafe.Pointer{nil, unsafe.Pointer(&ptrTargets[0]), unsafe.Pointer(&ptrTargets[1]), unsafe.Pointer(&ptrTargets[0])}
	})
	addKeyType("chan int", func() []chan int { return []chan int{nil, chans[0], chans[1], chans[2], chans[0]} })
	addKeyType("[3]int", func() [][3]int { return [][3]int{{}, {1, 2, 3}, {3, 2, 1}, {1, 2, 3}} })
	addKeyType("[2]string", func() [][2]string {
		return [][2]string{{}, {"a", "b"}, {strFrom("a"), strFrom("b")}, {"ab", ""}, {"a", "b" + ""}}
	})
	addKeyType("[2]float64", func() [][2]float64 { return [][2]float64{{0, 0}, {negZero, 0}, {0, negZero}, {1, 2}} })
	addKeyType("struct pad", func() []pad {
		return []pad{{}, {1, 2}, padWithGarbage(1, 2, 0xAA), padWithGarbage(1, 2, 0x55), padWithGarbage(0, 0, 0xFF), {2, 1}}
	})
	addKeyType("struct strN", func() []strN { return []strN{{}, {"x", 1}, {strFrom("x"), 1}, {"x", 2}, {"", 1}, {"y", 1}} })
	addKeyType("struct nested", func() []nested {
		return []nested{{}, {pad{1, 2}, "q", 0}, {padWithGarbage(1, 2, 0xFF), strFrom("q"), negZero}, {pad{1, 2}, "q", 1}, {F: negZero}}
	})
	addKeyType("struct blank", func() []blank {
		b1 := blank{X: 1, Y: 2}
		b2 := blank{X: 1, Y: 2}
		*(*int32)(unsafe.Pointer(uintptr(unsafe.Pointer(&b2)) + 4)) = 77 // the blank field differs
		return []blank{{}, b1, b2, {X: 2, Y: 1}}
	})
	addKeyType("struct withIface", func() []withIface {
		return []withIface{{}, {1, 2}, {int(1), 2}, {int64(1), 2}, {"s", 2}, {strFrom("s"), 2}, {nil, 2}, {negZero, 1}, {0.0, 1}, {&ptrTargets[0], 0}, {pad{1, 2}, 0}, {padWithGarbage(1, 2, 9), 0}}
	})
	addKeyType("struct ptrBox", func() []ptrBox { return []ptrBox{{}, {&ptrTargets[0]}, {&ptrTargets[0]}, {&ptrTargets[3]}} })
	addKeyType("[1]*int", func() [][1]*int { return [][1]*int{{}, {&ptrTargets[0]}, {&ptrTargets[0]}, {&ptrTargets[3]}} })
	localKeyTypes()
	addKeyType("any", anyPool)
	addKeyType("fmt.Stringer", func() []fmt.Stringer {
		return []fmt.Stringer{nil, myStringer(1), myStringer(1), myStringer(2), time.Duration(1), time.Duration(1), time.Duration(2)}
	})
	addKeyType("struct{}", func() []struct{} { return []struct{}{{}, {}} })
	// defined types over every basic kind (a fast path keyed on reflect.Kind must
	// not assume the predeclared type)
	addKeyType("named string", func() []namedStr {
		return []namedStr{"", "a", namedStr(strFrom("a")), "ab", namedStr(strFrom("a", "b"))}
	})
	addKeyType("named int", func() []namedInt { return []namedInt{0, 1, -1, math.MaxInt64} })
	addKeyType("named int32", func() []namedInt32 { return []namedInt32{0, 1, -1, math.MaxInt32} })
	addKeyType("named uint8", func() []namedU8 { return []namedU8{0, 1, 255} })
	addKeyType("named float64", func() []namedF64 { return []namedF64{0, namedF64(negZero), 1, -1} })
	addKeyType("named bool", func() []namedBool { return []namedBool{true, false} })
	addKeyType("named *int", func() []namedPtr { return []namedPtr{nil, &ptrTargets[0], &ptrTargets[1], &ptrTargets[0]} })
	addKeyType("named [2]int", func() []namedArr { return []namedArr{{}, {1, 2}, {2, 1}, {1, 2}} })
	addKeyType("named any", func() []namedAny {
		return []namedAny{nil, 1, int64(1), "s", strFrom("s"), namedStr("s"), negZero, 0.0, pad{1, 2}, padWithGarbage(1, 2, 3)}
	})
}

type (
	namedStr   string
	namedInt   int
	namedInt32 int32
	namedU8    uint8
	namedF64   float64
	namedBool  bool
	namedPtr   *int
	namedArr   [2]int
	namedAny   interface{}
)

// containerK abstracts MapOf[K,int64] and CacheOf[K,int64] for the mirror.
type containerK[K comparable] interface {
	store(k K, v int64)
	load(k K) (int64, bool)
	loadOrStore(k K, v int64) (int64, bool)
	loadAndDelete(k K) (int64, bool)
	del(k K)
	compute(k K, f func(int64, bool) (int64, bool)) (int64, bool)
	rng(f func(K, int64) bool)
	size() int
}

type mapK[K comparable] struct{ m cache.MapOf[K, int64] }

func (a mapK[K]) store(k K, v int64)                     { a.m.Store(k, v) }
func (a mapK[K]) load(k K) (int64, bool)                 { return a.m.Load(k) }
func (a mapK[K]) loadOrStore(k K, v int64) (int64, bool) { return a.m.LoadOrStore(k, v) }
func (a mapK[K]) loadAndDelete(k K) (int64, bool)        { return a.m.LoadAndDelete(k) }
func (a mapK[K]) del(k K)                                { a.m.Delete(k) }
func (a mapK[K]) rng(f func(K, int64) bool)              { a.m.Range(f) }
func (a mapK[K]) size() int                              { return a.m.Size() }
func (a mapK[K]) compute(k K, f func(int64, bool) (int64, bool)) (int64, bool) {
	return a.m.Compute(k, f)
}

type cacheK[K comparable] struct{ c cache.CacheOf[K, int64] }

func (a cacheK[K]) store(k K, v int64)                     { a.c.Set(k, v, 0) }
func (a cacheK[K]) load(k K) (int64, bool)                 { return a.c.Get(k) }
func (a cacheK[K]) loadOrStore(k K, v int64) (int64, bool) { return a.c.GetOrSet(k, v, 0) }
func (a cacheK[K]) loadAndDelete(k K) (int64, bool)        { return a.c.GetAndDelete(k) }
func (a cacheK[K]) del(k K)                                { a.c.Delete(k) }
func (a cacheK[K]) rng(f func(K, int64) bool)              { a.c.Range(f) }
func (a cacheK[K]) size() int                              { return a.c.Count() }
func (a cacheK[K]) compute(k K, f func(int64, bool) (int64, bool)) (int64, bool) {
	return a.c.Compute(k, f, 0)
}

// runKeyType mirrors a random call sequence on a builtin map[K]int64.
func runKeyType[K comparable](name string, pool []K, sp *SpecialCase, r *simrt.RNG) (bad []string) {
	var ct containerK[K]
	step := "construct"
	defer func() {
		if p := recover(); p != nil {
			buf := make([]byte, 2048)
			n := runtime.Stack(buf, false)
			bad = append(bad, fmt.Sprintf("panic|%s: %s panicked on a valid key: %v\n%s", name, step, p, buf[:n]))
		}
	}()
	if sp.UseCache {
		ct = cacheK[K]{cache.NewOfDefault[K, int64](0, 0)}
	} else if sp.ConstHasher {
		// a caller-supplied hasher under which every key collides (always a valid hasher)
		// (the constant is an ordinary value, zero or all ones: none of them may be read as a marker)
		hc := []uint64{0x5bd1e995, 0, math.MaxUint64}[r.Intn(3)]
		ct = mapK[K]{bridge.NewMapOfWithHasher[K, int64](func(K, uint64) uint64 { return hc }, r.Intn(40))}
	} else if r.Bool(0.5) {
		ct = mapK[K]{cache.NewMapOf[K, int64]()}
	} else {
		ct = mapK[K]{cache.NewMapOfPresized[K, int64](r.Intn(300))}
	}
	ref := map[K]int64{}
	fail := func(f string, a ...interface{}) {
		if len(bad) < 4 {
			bad = append(bad, "equality|"+name+": "+fmt.Sprintf(f, a...))
		}
	}
	next := int64(0)
	for i := 0; i < sp.Ops; i++ {
		ki := r.Intn(len(pool))
		k := pool[ki]
		next++
		switch r.Intn(9) {
		case 0, 1:
			step = fmt.Sprintf("Store(pool[%d]=%#v)", ki, k)
			ct.store(k, next)
			ref[k] = next
		case 2, 3:
			step = fmt.Sprintf("Load(pool[%d]=%#v)", ki, k)
			v, ok := ct.load(k)
			rv, rok := ref[k]
			if v != rv || ok != rok {
				fail("%s = (%d,%v), builtin map says (%d,%v)", step, v, ok, rv, rok)
			}
		case 4:
			step = fmt.Sprintf("LoadOrStore(pool[%d]=%#v)", ki, k)
			v, ok := ct.loadOrStore(k, next)
			rv, rok := ref[k]
			if !rok {
				ref[k] = next
				rv = next
			}
			if v != rv || ok != rok {
				fail("%s = (%d,%v), builtin map says (%d,%v)", step, v, ok, rv, rok)
			}
		case 5:
			step = fmt.Sprintf("LoadAndDelete(pool[%d]=%#v)", ki, k)
			v, ok := ct.loadAndDelete(k)
			rv, rok := ref[k]
			delete(ref, k)
			if v != rv || ok != rok {
				fail("%s = (%d,%v), builtin map says (%d,%v)", step, v, ok, rv, rok)
			}
		case 6:
			step = fmt.Sprintf("Delete(pool[%d]=%#v)", ki, k)
			ct.del(k)
			delete(ref, k)
		case 7:
			step = fmt.Sprintf("Compute(pool[%d]=%#v)", ki, k)
			var sawOld int64
			var sawLoaded bool
			ct.compute(k, func(old int64, loaded bool) (int64, bool) {
				sawOld, sawLoaded = old, loaded
				return next, false
			})
			rv, rok := ref[k]
			ref[k] = next
			if sawOld != rv || sawLoaded != rok {
				fail("%s handed (%d,%v) to the function, builtin map says (%d,%v)", step, sawOld, sawLoaded, rv, rok)
			}
		case 8:
			// memory a key merely points to changes; filler keys force resizes
			mutatePointees(r)
			step = "Size"
			if n := ct.size(); n != len(ref) {
				fail("Size()=%d, builtin map holds %d keys", n, len(ref))
			}
		}
	}
	step = "Range"
	got := map[K]int64{}
	dups := 0
	ct.rng(func(k K, v int64) bool {
		if _, dup := got[k]; dup {
			dups++
		}
		got[k] = v
		return true
	})
	if dups > 0 {
		fail("Range visited %d keys twice (two entries for == keys)", dups)
	}
	if len(got) != len(ref) {
		fail("Range visited %d distinct keys, builtin map holds %d", len(got), len(ref))
	}
	for k, v := range ref {
		if gv, ok := got[k]; !ok || gv != v {
			fail("final contents differ at key %#v: (%d,%v) vs builtin %d", k, gv, ok, v)
			break
		}
	}
	return bad
}

func runKeys(sp *SpecialCase) *Outcome {
	o := &Outcome{Probes: map[string]int{}}
	r := simrt.NewRNG(sp.Seed, 0xC10)
	ptrTargets = [4]int{} // runs must not see each other's state
	setHash(sp.HashMode, sp.CollideN, simrt.Mix64(sp.Seed^0x7AB))
	ml := sp.MinLen
	if ml <= 0 {
		ml = 32
	}
	bridge.SetMinTableLen(ml)
	defer bridge.SetMinTableLen(32)
	sim := simrt.New(simrt.Config{Seed: sp.Seed, Strategy: simrt.StrategyConfig{Kind: "random"}, Epoch: time.Date(2024, 1, 1, 0, 0, 0, 0, time.UTC).UnixNano(), StepBudget: 5000000})
	defer sim.Close()
	kt := keyCatalogue[sp.KeyType%len(keyCatalogue)]
	if sp.KeyName != "" {
		for _, k := range keyCatalogue {
			if k.name == sp.KeyName {
				kt = k
			}
		}
	}
	var bad []string
	sim.Spawn("keys", func() { bad = kt.run(sp, r) })
	out := sim.Run()
	sim.WaitFin()
	o.TraceHash = sim.TraceHash
	o.Steps = sim.Seq
	o.NonTrivial = true
	o.Probes["keytype:"+kt.name]++
	o.History = append(o.History, fmt.Sprintf("key type %s, hash mode %s/%d, min table length %d, cache=%v, %d operations", kt.name, sp.HashMode, sp.CollideN, ml, sp.UseCache, sp.Ops))
	if out == simrt.OutPanic {
		for _, t := range sim.Tasks() {
			if t.PanicText != "" {
				bad = append(bad, "panic|"+kt.name+": "+t.PanicText)
			}
		}
	} else if out == simrt.OutBudget {
		o.Watchdog = sim.Explain
	} else if out != simrt.OutOK {
		o.Aborted = out.String()
	}
	for _, b := range bad {
		i := strings.IndexByte(b, '|')
		o.Violations = append(o.Violations, Violation{Rule: "keys-" + b[:i], Detail: b[i+1:]})
	}
	return o
}

func genKeys(seed uint64, tier string) *Case {
	r := simrt.NewRNG(seed, 0xC10C10)
	sp := &SpecialCase{Kind: "keys", Seed: seed}
	sp.KeyType = r.Intn(len(keyCatalogue))
	if r.Bool(0.25) {
		for i, kt := range keyCatalogue {
			if kt.name == "any" {
				sp.KeyType = i // the any catalogue gets a larger share
			}
		}
	}
	switch r.Intn(4) {
	case 0:
		sp.HashMode, sp.NonReplayable = "native", true
	case 1:
		sp.HashMode = "det"
	case 2:
		sp.HashMode, sp.CollideN = "collide", 1
	case 3:
		sp.HashMode, sp.CollideN = "collide", 2+r.Intn(3)
	}
	sp.KeyName = keyCatalogue[sp.KeyType].name
	switch keyCatalogue[sp.KeyType].name {
	case "*int", "unsafe.Pointer", "chan int", "struct withIface", "any", "struct ptrBox", "[1]*int", "named *int":
		// hashes of pointer-bearing keys depend on addresses: the bucket layout
		// is not the same in another process
		sp.NonReplayable = true
	}
	sp.MinLen = []int{1, 2, 32}[r.Intn(3)]
	sp.UseCache = r.Bool(0.3)
	sp.ConstHasher = !sp.UseCache && r.Bool(0.15)
	sp.Ops = 20 + r.Intn(150)
	if tier == "thorough" {
		sp.Ops = 20 + r.Intn(1500)
	}
	return &Case{Special: sp}
}

// ---------------------------------------------------------------------------
// C15b: a dropped cache's janitor stops and its contents are collected

var gcCollected int64

func runGC(sp *SpecialCase) *Outcome {
	o := &Outcome{Probes: map[string]int{}, NonTrivial: true}
	r := simrt.NewRNG(sp.Seed, 0xC15B)
	setHash("det", 1, sp.Seed)
	sim := simrt.New(simrt.Config{Seed: sp.Seed, Strategy: simrt.StrategyConfig{Kind: "random"}, Epoch: time.Date(2024, 1, 1, 0, 0, 0, 0, time.UTC).UnixNano(), StepBudget: 5000000})
	defer sim.Close()
	before := sim.BackgroundTasks()
	type live struct {
		c CacheAPI
	}
	caches := make([]*live, sp.Caches)
	wantJanitors := 0
	payloads := 0
	atomic.StoreInt64(&gcCollected, 0)
	for i := range caches {
		ct := CacheCtor{Kind: []string{"cacheof_int_ptr", "cache"}[r.Intn(2)], Ctor: []string{"new", "default"}[r.Intn(2)], SetInt: true, SetDef: true}
		ct.Interval = []int64{-1, 0, 1, int64(time.Second), int64(time.Hour)}[r.Intn(5)]
		ct.DefTTL = []int64{0, 5, int64(time.Hour)}[r.Intn(3)]
		ct.CB = r.Bool(0.5)
		if ct.Interval > 0 {
			wantJanitors++
		}
		var cb func(int, int64)
		if ct.CB {
			cb = func(int, int64) {} // does not capture the cache
		}
		caches[i] = &live{NewCacheKind(ct, cb)}
	}
	created := sim.BackgroundTasks() - before
	o.Probes["janitor_tasks_started"] += created
	payloadMode = true
	sim.Spawn("fill", func() {
		for _, l := range caches {
			n := r.Intn(6)
			for k := 0; k < n; k++ {
				payloads++
				id := int64(payloads)
				switch c := l.c.(type) {
				case *cacheOfAd[int, *Payload]:
					p := newPayload(id)
					runtime.SetFinalizer(p, func(*Payload) { atomic.AddInt64(&gcCollected, 1) })
					c.c.Set(intKeys.enc(k), p, time.Duration([]int64{0, 3, int64(time.Hour)}[r.Intn(3)]))
				case *cacheAd:
					p := newPayload(id)
					runtime.SetFinalizer(p, func(*Payload) { atomic.AddInt64(&gcCollected, 1) })
					c.c.Set(strKey(k), p, time.Duration([]int64{0, 3, int64(time.Hour)}[r.Intn(3)]))
				}
			}
		}
		if r.Bool(0.5) {
			sim.Advance(int64(r.Intn(10)), true, 2)
		}
	})
	out := sim.Run()
	sim.WaitFin()
	payloadMode = false
	if out != simrt.OutOK {
		o.Aborted = out.String()
		return o
	}
	// drop every reference
	for i := range caches {
		caches[i] = nil
	}
	caches = nil
	// a leak verdict needs the 30 s allowance AND at least this many GC rounds
	// (an unloaded machine does several thousand in 30 s)
	const minGCRounds = 300
	deadline := time.Now().Add(30 * time.Second)
	if sp.Race {
		deadline = time.Now().Add(5 * time.Second)
	}
	rounds := 0
	for {
		rounds++
		if sp.Race {
			// the janitors keep ticking while their caches are collected: a tick is
			// already waiting in every ticker when the finalizers run
			sim.Advance(int64(time.Second), false, 0)
		}
		runtime.GC()
		runtime.Gosched()
		time.Sleep(200 * time.Microsecond)
		sim.Pump()
		if o2 := sim.Run(); o2 != simrt.OutOK {
			o.Aborted = o2.String()
			return o
		}
		if sim.BackgroundTasks() == before && atomic.LoadInt64(&gcCollected) >= int64(payloads) {
			break
		}
		if time.Now().After(deadline) && !sp.Race && rounds < minGCRounds && time.Now().Before(deadline.Add(4*time.Minute)) {
			// a starved process (one round took the whole allowance on a loaded
			// machine) has not watched long enough to call anything a leak
			continue
		}
		if time.Now().After(deadline) {
			if sp.Race {
				break // leaks are C15's business; here only the detector's verdict counts
			}
			if sim.BackgroundTasks() != before {
				o.Violations = append(o.Violations, Violation{Rule: "janitor-leak", Detail: fmt.Sprintf("%d caches were dropped; after %d GC rounds (30 s) %d janitor tasks are still alive", sp.Caches, rounds, sim.BackgroundTasks()-before)})
			} else {
				o.Violations = append(o.Violations, Violation{Rule: "contents-leak", Detail: fmt.Sprintf("%d caches were dropped and their janitors stopped, but only %d of %d stored payloads were collected after %d GC rounds (30 s)", sp.Caches, atomic.LoadInt64(&gcCollected), payloads, rounds)})
			}
			break
		}
	}
	if sp.Race && raceLogGrew() {
		o.Violations = append(o.Violations, Violation{Rule: "race", Detail: "the race detector reported a data race while caches were dropped, collected and their janitors stopped (report in the detector log)"})
	}
	o.Probes["gc_rounds"] += rounds
	o.Probes["caches_dropped"] += sp.Caches
	o.Probes["janitors_stopped"] += wantJanitors
	o.Probes["payloads_collected"] += int(atomic.LoadInt64(&gcCollected))
	o.TraceHash = simrt.Mix64(sp.Seed)
	o.Steps = sim.Seq
	o.History = append(o.History, fmt.Sprintf("%d caches (%d with janitor), %d payloads, %d GC rounds", sp.Caches, wantJanitors, payloads, rounds))
	return o
}

// ---------------------------------------------------------------------------
// C14: race reports are read from the detector's log files

var raceHeader = regexp.MustCompile(`(?m)^WARNING: DATA RACE`)

func collectRaceReports(tmp, replayDir string) (inCodeN, driverOnlyN int, sample string) {
	files, _ := filepath.Glob(filepath.Join(tmp, "race*"))
	sort.Strings(files)
	for _, f := range files {
		b, err := os.ReadFile(f)
		if err != nil || len(b) == 0 {
			continue
		}
		reports := strings.Split(string(b), "==================")
		for _, rep := range reports {
			if !raceHeader.MatchString(rep) {
				continue
			}
			inCode := false
			for _, line := range strings.Split(rep, "\n") {
				l := strings.TrimSpace(line)
				if strings.HasPrefix(l, "github.com/fufuok/cache") && !strings.Contains(l, "/verifsim/") {
					inCode = true
				}
				if strings.Contains(l, "main.readPayload") || strings.Contains(l, "main.newPayload") {
					inCode = true
				}
			}
			if inCode {
				inCodeN++
				if inCodeN == 1 {
					sample = firstLines(rep, 30)
					os.MkdirAll(replayDir, 0o755)
					os.WriteFile(filepath.Join(replayDir, "C14-race-report.txt"), []byte(rep), 0o644)
				}
			} else {
				driverOnlyN++
				if inCodeN == 0 {
					sample = firstLines(rep, 30)
				}
			}
		}
	}
	return
}

func firstLines(s string, n int) string {
	ls := strings.Split(strings.TrimSpace(s), "\n")
	if len(ls) > n {
		ls = ls[:n]
	}
	return strings.Join(ls, "\n")
}

// Two distinct key types that print the same name ("main.localKey"): a hasher
// that identifies types by name would hash one of them with the other's layout.
func localKeyTypes() {
	func() {
		type localKey struct{ Hi, Lo uint64 }
		addKeyType("localKey{Hi,Lo}", func() []localKey { return []localKey{{}, {1, 2}, {2, 1}, {1, 2}, {1 << 63, 0}} })
	}()
	func() {
		type localKey struct{ Name string }
		addKeyType("localKey{Name}", func() []localKey {
			return []localKey{{}, {"a"}, {strFrom("a")}, {"abc"}, {strFrom("ab", "c")}, {"b"}}
		})
	}()
}
