package main

// temporary stubs, replaced as the scenarios are built

type SeqScenario struct {
	Family   string   `json:"family"`
	HashMode string   `json:"hash_mode"`
	Ops      []Op     `json:"ops"`
	Replay   []uint16 `json:"replay,omitempty"`
}

func (s *SeqScenario) note(w *WorkerOut) {}

type SpecialCase struct {
	Kind          string `json:"kind"`
	NonReplayable bool   `json:"non_replayable"`
}

func executeSeq(c *Case) *Outcome     { panic("todo") }
func executeSpecial(c *Case) *Outcome { panic("todo") }
func shrinkSeq(c *Case, o *Outcome, rule string) (*Case, *Outcome) { return c, o }
func collectRaceReports(tmp, replayDir string) ([]FoundViolation, string) { return nil, "" }
