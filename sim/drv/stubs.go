package main

import "time"

// shrinkSeq minimises a failing sequential case: cut the call sequence after
// the last call the violation needs, then drop calls one at a time.
func shrinkSeq(c *Case, o *Outcome, rule string) (*Case, *Outcome) {
	best, bo := cloneCase(c), o
	budget := 400
	deadline := time.Now().Add(45 * time.Second) // big scenarios (tens of thousands of keys) cost a second per execution
	try := func(cand *Case) bool {
		if budget <= 0 || time.Now().After(deadline) {
			budget = 0
			return false
		}
		budget--
		cand.Seq.Replay = nil
		xo := Execute(cand)
		if hasRule(xo, rule) && xo.Watchdog == "" {
			best, bo = cand, xo
			return true
		}
		return false
	}
	// binary cut from the end
	for len(best.Seq.Ops) > 1 {
		cand := cloneCase(best)
		cand.Seq.Ops = cand.Seq.Ops[:len(cand.Seq.Ops)/2]
		if !try(cand) {
			break
		}
	}
	for n := len(best.Seq.Ops) - 1; n >= 1; n-- {
		if n >= len(best.Seq.Ops) {
			continue
		}
		cand := cloneCase(best)
		cand.Seq.Ops = cand.Seq.Ops[:n]
		if !try(cand) {
			break
		}
	}
	changed := true
	for changed && budget > 0 {
		changed = false
		for i := len(best.Seq.Ops) - 1; i >= 0; i-- {
			if len(best.Seq.Ops) <= 1 {
				break
			}
			cand := cloneCase(best)
			cand.Seq.Ops = append(cand.Seq.Ops[:i:i], cand.Seq.Ops[i+1:]...)
			if try(cand) {
				changed = true
			}
		}
	}
	if best.Seq.A.PreClear > 0 {
		cand := cloneCase(best)
		cand.Seq.A.PreClear = 0
		try(cand)
	}
	best.Minimised = true
	return best, bo
}
