package main

func shrinkSeq(c *Case, o *Outcome, rule string) (*Case, *Outcome) { return c, o }
