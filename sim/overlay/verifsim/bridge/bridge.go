// Package bridge gives the driver module (a downstream user of the cache
// module) access to the few internal/xsync entry points it needs.
package bridge

import (
	cache "github.com/fufuok/cache"
	"github.com/fufuok/cache/internal/xsync"
)

// NewMapOfWithHasher builds a MapOf with an explicit hash function.
func NewMapOfWithHasher[K comparable, V any](h func(K, uint64) uint64, presize int) cache.MapOf[K, V] {
	return xsync.NewMapOfWithHasher[K, V](h, xsync.WithPresize(presize))
}

// NewMapGrowOnly / NewMapOfGrowOnly build maps with the internal grow-only
// option (no public constructor passes it; the properties hold for it too).
func NewMapGrowOnly(presize int) cache.Map {
	return xsync.NewMap(xsync.WithPresize(presize), xsync.WithGrowOnly())
}

func NewMapOfGrowOnly[K comparable, V any](presize int) cache.MapOf[K, V] {
	return xsync.NewMapOf[K, V](xsync.WithPresize(presize), xsync.WithGrowOnly())
}

// SetMinTableLen sets the minimal-table-length knob; false if the knob could
// not be lifted in this tree.
func SetMinTableLen(n int) bool { return xsync.VerifSetMinTableLen(n) }

// SetMinCapacity sets the floor the cache constructors apply to MinCapacity
// (shipped: 96 = 32 buckets x 3); false if the knob could not be lifted.
func SetMinCapacity(n int) bool { return cache.VerifSetMinCapacity(n) }

// Stats is the part of xsync.MapStats the driver reads.
type Stats struct {
	RootBuckets  int
	TotalBuckets int
	Size         int
	Counter      int
	Growths      int64
	Shrinks      int64
	MaxChain     int
}

// StatsOf returns table statistics of a Map/MapOf value, if it has them.
func StatsOf(m interface{}) (Stats, bool) {
	s, ok := m.(interface{ Stats() xsync.MapStats })
	if !ok {
		return Stats{}, false
	}
	x := s.Stats()
	return Stats{x.RootBuckets, x.TotalBuckets, x.Size, x.Counter, x.TotalGrowths, x.TotalShrinks, x.MaxEntries}, true
}
