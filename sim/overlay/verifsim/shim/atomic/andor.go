package atomic

// And/Or (Go 1.23) for the function and the typed forms.

import (
	ra "sync/atomic"
	"unsafe"

	"github.com/fufuok/cache/verifsim/simrt"
)

//go:norace
func AndInt32(addr *int32, mask int32) int32 {
	simrt.Yield(simrt.OpAdd, unsafe.Pointer(addr))
	r := ra.AndInt32(addr, mask)
	simrt.NoteWrite()
	return r
}

//go:norace
func (x *Int32) And(mask int32) int32 {
	simrt.Yield(simrt.OpAdd, unsafe.Pointer(x))
	r := x.v.And(mask)
	simrt.NoteWrite()
	return r
}

//go:norace
func OrInt32(addr *int32, mask int32) int32 {
	simrt.Yield(simrt.OpAdd, unsafe.Pointer(addr))
	r := ra.OrInt32(addr, mask)
	simrt.NoteWrite()
	return r
}

//go:norace
func (x *Int32) Or(mask int32) int32 {
	simrt.Yield(simrt.OpAdd, unsafe.Pointer(x))
	r := x.v.Or(mask)
	simrt.NoteWrite()
	return r
}

//go:norace
func AndInt64(addr *int64, mask int64) int64 {
	simrt.Yield(simrt.OpAdd, unsafe.Pointer(addr))
	r := ra.AndInt64(addr, mask)
	simrt.NoteWrite()
	return r
}

//go:norace
func (x *Int64) And(mask int64) int64 {
	simrt.Yield(simrt.OpAdd, unsafe.Pointer(x))
	r := x.v.And(mask)
	simrt.NoteWrite()
	return r
}

//go:norace
func OrInt64(addr *int64, mask int64) int64 {
	simrt.Yield(simrt.OpAdd, unsafe.Pointer(addr))
	r := ra.OrInt64(addr, mask)
	simrt.NoteWrite()
	return r
}

//go:norace
func (x *Int64) Or(mask int64) int64 {
	simrt.Yield(simrt.OpAdd, unsafe.Pointer(x))
	r := x.v.Or(mask)
	simrt.NoteWrite()
	return r
}

//go:norace
func AndUint32(addr *uint32, mask uint32) uint32 {
	simrt.Yield(simrt.OpAdd, unsafe.Pointer(addr))
	r := ra.AndUint32(addr, mask)
	simrt.NoteWrite()
	return r
}

//go:norace
func (x *Uint32) And(mask uint32) uint32 {
	simrt.Yield(simrt.OpAdd, unsafe.Pointer(x))
	r := x.v.And(mask)
	simrt.NoteWrite()
	return r
}

//go:norace
func OrUint32(addr *uint32, mask uint32) uint32 {
	simrt.Yield(simrt.OpAdd, unsafe.Pointer(addr))
	r := ra.OrUint32(addr, mask)
	simrt.NoteWrite()
	return r
}

//go:norace
func (x *Uint32) Or(mask uint32) uint32 {
	simrt.Yield(simrt.OpAdd, unsafe.Pointer(x))
	r := x.v.Or(mask)
	simrt.NoteWrite()
	return r
}

//go:norace
func AndUint64(addr *uint64, mask uint64) uint64 {
	simrt.Yield(simrt.OpAdd, unsafe.Pointer(addr))
	r := ra.AndUint64(addr, mask)
	simrt.NoteWrite()
	return r
}

//go:norace
func (x *Uint64) And(mask uint64) uint64 {
	simrt.Yield(simrt.OpAdd, unsafe.Pointer(x))
	r := x.v.And(mask)
	simrt.NoteWrite()
	return r
}

//go:norace
func OrUint64(addr *uint64, mask uint64) uint64 {
	simrt.Yield(simrt.OpAdd, unsafe.Pointer(addr))
	r := ra.OrUint64(addr, mask)
	simrt.NoteWrite()
	return r
}

//go:norace
func (x *Uint64) Or(mask uint64) uint64 {
	simrt.Yield(simrt.OpAdd, unsafe.Pointer(x))
	r := x.v.Or(mask)
	simrt.NoteWrite()
	return r
}

//go:norace
func AndUintptr(addr *uintptr, mask uintptr) uintptr {
	simrt.Yield(simrt.OpAdd, unsafe.Pointer(addr))
	r := ra.AndUintptr(addr, mask)
	simrt.NoteWrite()
	return r
}

//go:norace
func (x *Uintptr) And(mask uintptr) uintptr {
	simrt.Yield(simrt.OpAdd, unsafe.Pointer(x))
	r := x.v.And(mask)
	simrt.NoteWrite()
	return r
}

//go:norace
func OrUintptr(addr *uintptr, mask uintptr) uintptr {
	simrt.Yield(simrt.OpAdd, unsafe.Pointer(addr))
	r := ra.OrUintptr(addr, mask)
	simrt.NoteWrite()
	return r
}

//go:norace
func (x *Uintptr) Or(mask uintptr) uintptr {
	simrt.Yield(simrt.OpAdd, unsafe.Pointer(x))
	r := x.v.Or(mask)
	simrt.NoteWrite()
	return r
}
