// Package atomic is the simulator's stand-in for sync/atomic: every operation
// is a scheduling point followed by the real atomic operation.
package atomic

import (
	ra "sync/atomic"
	"unsafe"

	"github.com/fufuok/cache/verifsim/simrt"
)

//go:norace
func LoadInt32(addr *int32) int32 {
	simrt.Yield(simrt.OpLoad, unsafe.Pointer(addr))
	return ra.LoadInt32(addr)
}

//go:norace
func StoreInt32(addr *int32, val int32) {
	simrt.Yield(simrt.OpStore, unsafe.Pointer(addr))
	ra.StoreInt32(addr, val)
	simrt.NoteWrite()
}

//go:norace
func AddInt32(addr *int32, delta int32) int32 {
	simrt.Yield(simrt.OpAdd, unsafe.Pointer(addr))
	r := ra.AddInt32(addr, delta)
	simrt.NoteWrite()
	return r
}

//go:norace
func SwapInt32(addr *int32, new int32) int32 {
	simrt.Yield(simrt.OpSwap, unsafe.Pointer(addr))
	r := ra.SwapInt32(addr, new)
	simrt.NoteWrite()
	return r
}

//go:norace
func CompareAndSwapInt32(addr *int32, old, new int32) bool {
	simrt.Yield(simrt.OpCAS, unsafe.Pointer(addr))
	ok := ra.CompareAndSwapInt32(addr, old, new)
	if ok {
		simrt.NoteWrite()
	} else {
		simrt.NoteCASFail()
	}
	return ok
}

// Int32 is the typed atomic.
type Int32 struct{ v ra.Int32 }

//go:norace
func (x *Int32) Load() int32 {
	simrt.Yield(simrt.OpLoad, unsafe.Pointer(x))
	return x.v.Load()
}

//go:norace
func (x *Int32) Store(val int32) {
	simrt.Yield(simrt.OpStore, unsafe.Pointer(x))
	x.v.Store(val)
	simrt.NoteWrite()
}

//go:norace
func (x *Int32) Add(delta int32) int32 {
	simrt.Yield(simrt.OpAdd, unsafe.Pointer(x))
	r := x.v.Add(delta)
	simrt.NoteWrite()
	return r
}

//go:norace
func (x *Int32) Swap(new int32) int32 {
	simrt.Yield(simrt.OpSwap, unsafe.Pointer(x))
	r := x.v.Swap(new)
	simrt.NoteWrite()
	return r
}

//go:norace
func (x *Int32) CompareAndSwap(old, new int32) bool {
	simrt.Yield(simrt.OpCAS, unsafe.Pointer(x))
	ok := x.v.CompareAndSwap(old, new)
	if ok {
		simrt.NoteWrite()
	} else {
		simrt.NoteCASFail()
	}
	return ok
}

//go:norace
func LoadInt64(addr *int64) int64 {
	simrt.Yield(simrt.OpLoad, unsafe.Pointer(addr))
	return ra.LoadInt64(addr)
}

//go:norace
func StoreInt64(addr *int64, val int64) {
	simrt.Yield(simrt.OpStore, unsafe.Pointer(addr))
	ra.StoreInt64(addr, val)
	simrt.NoteWrite()
}

//go:norace
func AddInt64(addr *int64, delta int64) int64 {
	simrt.Yield(simrt.OpAdd, unsafe.Pointer(addr))
	r := ra.AddInt64(addr, delta)
	simrt.NoteWrite()
	return r
}

//go:norace
func SwapInt64(addr *int64, new int64) int64 {
	simrt.Yield(simrt.OpSwap, unsafe.Pointer(addr))
	r := ra.SwapInt64(addr, new)
	simrt.NoteWrite()
	return r
}

//go:norace
func CompareAndSwapInt64(addr *int64, old, new int64) bool {
	simrt.Yield(simrt.OpCAS, unsafe.Pointer(addr))
	ok := ra.CompareAndSwapInt64(addr, old, new)
	if ok {
		simrt.NoteWrite()
	} else {
		simrt.NoteCASFail()
	}
	return ok
}

// Int64 is the typed atomic.
type Int64 struct{ v ra.Int64 }

//go:norace
func (x *Int64) Load() int64 {
	simrt.Yield(simrt.OpLoad, unsafe.Pointer(x))
	return x.v.Load()
}

//go:norace
func (x *Int64) Store(val int64) {
	simrt.Yield(simrt.OpStore, unsafe.Pointer(x))
	x.v.Store(val)
	simrt.NoteWrite()
}

//go:norace
func (x *Int64) Add(delta int64) int64 {
	simrt.Yield(simrt.OpAdd, unsafe.Pointer(x))
	r := x.v.Add(delta)
	simrt.NoteWrite()
	return r
}

//go:norace
func (x *Int64) Swap(new int64) int64 {
	simrt.Yield(simrt.OpSwap, unsafe.Pointer(x))
	r := x.v.Swap(new)
	simrt.NoteWrite()
	return r
}

//go:norace
func (x *Int64) CompareAndSwap(old, new int64) bool {
	simrt.Yield(simrt.OpCAS, unsafe.Pointer(x))
	ok := x.v.CompareAndSwap(old, new)
	if ok {
		simrt.NoteWrite()
	} else {
		simrt.NoteCASFail()
	}
	return ok
}

//go:norace
func LoadUint32(addr *uint32) uint32 {
	simrt.Yield(simrt.OpLoad, unsafe.Pointer(addr))
	return ra.LoadUint32(addr)
}

//go:norace
func StoreUint32(addr *uint32, val uint32) {
	simrt.Yield(simrt.OpStore, unsafe.Pointer(addr))
	ra.StoreUint32(addr, val)
	simrt.NoteWrite()
}

//go:norace
func AddUint32(addr *uint32, delta uint32) uint32 {
	simrt.Yield(simrt.OpAdd, unsafe.Pointer(addr))
	r := ra.AddUint32(addr, delta)
	simrt.NoteWrite()
	return r
}

//go:norace
func SwapUint32(addr *uint32, new uint32) uint32 {
	simrt.Yield(simrt.OpSwap, unsafe.Pointer(addr))
	r := ra.SwapUint32(addr, new)
	simrt.NoteWrite()
	return r
}

//go:norace
func CompareAndSwapUint32(addr *uint32, old, new uint32) bool {
	simrt.Yield(simrt.OpCAS, unsafe.Pointer(addr))
	ok := ra.CompareAndSwapUint32(addr, old, new)
	if ok {
		simrt.NoteWrite()
	} else {
		simrt.NoteCASFail()
	}
	return ok
}

// Uint32 is the typed atomic.
type Uint32 struct{ v ra.Uint32 }

//go:norace
func (x *Uint32) Load() uint32 {
	simrt.Yield(simrt.OpLoad, unsafe.Pointer(x))
	return x.v.Load()
}

//go:norace
func (x *Uint32) Store(val uint32) {
	simrt.Yield(simrt.OpStore, unsafe.Pointer(x))
	x.v.Store(val)
	simrt.NoteWrite()
}

//go:norace
func (x *Uint32) Add(delta uint32) uint32 {
	simrt.Yield(simrt.OpAdd, unsafe.Pointer(x))
	r := x.v.Add(delta)
	simrt.NoteWrite()
	return r
}

//go:norace
func (x *Uint32) Swap(new uint32) uint32 {
	simrt.Yield(simrt.OpSwap, unsafe.Pointer(x))
	r := x.v.Swap(new)
	simrt.NoteWrite()
	return r
}

//go:norace
func (x *Uint32) CompareAndSwap(old, new uint32) bool {
	simrt.Yield(simrt.OpCAS, unsafe.Pointer(x))
	ok := x.v.CompareAndSwap(old, new)
	if ok {
		simrt.NoteWrite()
	} else {
		simrt.NoteCASFail()
	}
	return ok
}

//go:norace
func LoadUint64(addr *uint64) uint64 {
	simrt.Yield(simrt.OpLoad, unsafe.Pointer(addr))
	return ra.LoadUint64(addr)
}

//go:norace
func StoreUint64(addr *uint64, val uint64) {
	simrt.Yield(simrt.OpStore, unsafe.Pointer(addr))
	ra.StoreUint64(addr, val)
	simrt.NoteWrite()
}

//go:norace
func AddUint64(addr *uint64, delta uint64) uint64 {
	simrt.Yield(simrt.OpAdd, unsafe.Pointer(addr))
	r := ra.AddUint64(addr, delta)
	simrt.NoteWrite()
	return r
}

//go:norace
func SwapUint64(addr *uint64, new uint64) uint64 {
	simrt.Yield(simrt.OpSwap, unsafe.Pointer(addr))
	r := ra.SwapUint64(addr, new)
	simrt.NoteWrite()
	return r
}

//go:norace
func CompareAndSwapUint64(addr *uint64, old, new uint64) bool {
	simrt.Yield(simrt.OpCAS, unsafe.Pointer(addr))
	ok := ra.CompareAndSwapUint64(addr, old, new)
	if ok {
		simrt.NoteWrite()
	} else {
		simrt.NoteCASFail()
	}
	return ok
}

// Uint64 is the typed atomic.
type Uint64 struct{ v ra.Uint64 }

//go:norace
func (x *Uint64) Load() uint64 {
	simrt.Yield(simrt.OpLoad, unsafe.Pointer(x))
	return x.v.Load()
}

//go:norace
func (x *Uint64) Store(val uint64) {
	simrt.Yield(simrt.OpStore, unsafe.Pointer(x))
	x.v.Store(val)
	simrt.NoteWrite()
}

//go:norace
func (x *Uint64) Add(delta uint64) uint64 {
	simrt.Yield(simrt.OpAdd, unsafe.Pointer(x))
	r := x.v.Add(delta)
	simrt.NoteWrite()
	return r
}

//go:norace
func (x *Uint64) Swap(new uint64) uint64 {
	simrt.Yield(simrt.OpSwap, unsafe.Pointer(x))
	r := x.v.Swap(new)
	simrt.NoteWrite()
	return r
}

//go:norace
func (x *Uint64) CompareAndSwap(old, new uint64) bool {
	simrt.Yield(simrt.OpCAS, unsafe.Pointer(x))
	ok := x.v.CompareAndSwap(old, new)
	if ok {
		simrt.NoteWrite()
	} else {
		simrt.NoteCASFail()
	}
	return ok
}

//go:norace
func LoadUintptr(addr *uintptr) uintptr {
	simrt.Yield(simrt.OpLoad, unsafe.Pointer(addr))
	return ra.LoadUintptr(addr)
}

//go:norace
func StoreUintptr(addr *uintptr, val uintptr) {
	simrt.Yield(simrt.OpStore, unsafe.Pointer(addr))
	ra.StoreUintptr(addr, val)
	simrt.NoteWrite()
}

//go:norace
func AddUintptr(addr *uintptr, delta uintptr) uintptr {
	simrt.Yield(simrt.OpAdd, unsafe.Pointer(addr))
	r := ra.AddUintptr(addr, delta)
	simrt.NoteWrite()
	return r
}

//go:norace
func SwapUintptr(addr *uintptr, new uintptr) uintptr {
	simrt.Yield(simrt.OpSwap, unsafe.Pointer(addr))
	r := ra.SwapUintptr(addr, new)
	simrt.NoteWrite()
	return r
}

//go:norace
func CompareAndSwapUintptr(addr *uintptr, old, new uintptr) bool {
	simrt.Yield(simrt.OpCAS, unsafe.Pointer(addr))
	ok := ra.CompareAndSwapUintptr(addr, old, new)
	if ok {
		simrt.NoteWrite()
	} else {
		simrt.NoteCASFail()
	}
	return ok
}

// Uintptr is the typed atomic.
type Uintptr struct{ v ra.Uintptr }

//go:norace
func (x *Uintptr) Load() uintptr {
	simrt.Yield(simrt.OpLoad, unsafe.Pointer(x))
	return x.v.Load()
}

//go:norace
func (x *Uintptr) Store(val uintptr) {
	simrt.Yield(simrt.OpStore, unsafe.Pointer(x))
	x.v.Store(val)
	simrt.NoteWrite()
}

//go:norace
func (x *Uintptr) Add(delta uintptr) uintptr {
	simrt.Yield(simrt.OpAdd, unsafe.Pointer(x))
	r := x.v.Add(delta)
	simrt.NoteWrite()
	return r
}

//go:norace
func (x *Uintptr) Swap(new uintptr) uintptr {
	simrt.Yield(simrt.OpSwap, unsafe.Pointer(x))
	r := x.v.Swap(new)
	simrt.NoteWrite()
	return r
}

//go:norace
func (x *Uintptr) CompareAndSwap(old, new uintptr) bool {
	simrt.Yield(simrt.OpCAS, unsafe.Pointer(x))
	ok := x.v.CompareAndSwap(old, new)
	if ok {
		simrt.NoteWrite()
	} else {
		simrt.NoteCASFail()
	}
	return ok
}

//go:norace
func LoadPointer(addr *unsafe.Pointer) unsafe.Pointer {
	simrt.Yield(simrt.OpLoad, unsafe.Pointer(addr))
	return ra.LoadPointer(addr)
}

//go:norace
func StorePointer(addr *unsafe.Pointer, val unsafe.Pointer) {
	simrt.Yield(simrt.OpStore, unsafe.Pointer(addr))
	ra.StorePointer(addr, val)
	simrt.NoteWrite()
}

//go:norace
func SwapPointer(addr *unsafe.Pointer, new unsafe.Pointer) unsafe.Pointer {
	simrt.Yield(simrt.OpSwap, unsafe.Pointer(addr))
	r := ra.SwapPointer(addr, new)
	simrt.NoteWrite()
	return r
}

//go:norace
func CompareAndSwapPointer(addr *unsafe.Pointer, old, new unsafe.Pointer) bool {
	simrt.Yield(simrt.OpCAS, unsafe.Pointer(addr))
	ok := ra.CompareAndSwapPointer(addr, old, new)
	if ok {
		simrt.NoteWrite()
	} else {
		simrt.NoteCASFail()
	}
	return ok
}

// Bool is the typed atomic boolean.
type Bool struct{ v ra.Bool }

//go:norace
func (x *Bool) Load() bool {
	simrt.Yield(simrt.OpLoad, unsafe.Pointer(x))
	return x.v.Load()
}

//go:norace
func (x *Bool) Store(val bool) {
	simrt.Yield(simrt.OpStore, unsafe.Pointer(x))
	x.v.Store(val)
	simrt.NoteWrite()
}

//go:norace
func (x *Bool) Swap(new bool) bool {
	simrt.Yield(simrt.OpSwap, unsafe.Pointer(x))
	r := x.v.Swap(new)
	simrt.NoteWrite()
	return r
}

//go:norace
func (x *Bool) CompareAndSwap(old, new bool) bool {
	simrt.Yield(simrt.OpCAS, unsafe.Pointer(x))
	ok := x.v.CompareAndSwap(old, new)
	if ok {
		simrt.NoteWrite()
	} else {
		simrt.NoteCASFail()
	}
	return ok
}

// Pointer is the typed atomic pointer.
type Pointer[T any] struct{ v ra.Pointer[T] }

//go:norace
func (x *Pointer[T]) Load() *T {
	simrt.Yield(simrt.OpLoad, unsafe.Pointer(x))
	return x.v.Load()
}

//go:norace
func (x *Pointer[T]) Store(val *T) {
	simrt.Yield(simrt.OpStore, unsafe.Pointer(x))
	x.v.Store(val)
	simrt.NoteWrite()
}

//go:norace
func (x *Pointer[T]) Swap(new *T) *T {
	simrt.Yield(simrt.OpSwap, unsafe.Pointer(x))
	r := x.v.Swap(new)
	simrt.NoteWrite()
	return r
}

//go:norace
func (x *Pointer[T]) CompareAndSwap(old, new *T) bool {
	simrt.Yield(simrt.OpCAS, unsafe.Pointer(x))
	ok := x.v.CompareAndSwap(old, new)
	if ok {
		simrt.NoteWrite()
	} else {
		simrt.NoteCASFail()
	}
	return ok
}

// Value is the stand-in for atomic.Value (the real one inside).
type Value struct{ v ra.Value }

//go:norace
func (x *Value) Load() interface{} {
	simrt.Yield(simrt.OpValueLoad, unsafe.Pointer(x))
	return x.v.Load()
}

//go:norace
func (x *Value) Store(val interface{}) {
	simrt.Yield(simrt.OpValueStore, unsafe.Pointer(x))
	x.v.Store(val)
	simrt.NoteWrite()
}

//go:norace
func (x *Value) Swap(new interface{}) interface{} {
	simrt.Yield(simrt.OpSwap, unsafe.Pointer(x))
	r := x.v.Swap(new)
	simrt.NoteWrite()
	return r
}

//go:norace
func (x *Value) CompareAndSwap(old, new interface{}) bool {
	simrt.Yield(simrt.OpCAS, unsafe.Pointer(x))
	ok := x.v.CompareAndSwap(old, new)
	if ok {
		simrt.NoteWrite()
	} else {
		simrt.NoteCASFail()
	}
	return ok
}
