// Package runtime is the simulator's stand-in for package runtime: Gosched is
// a (fair) scheduling point; everything else is forwarded.
package runtime

import (
	rr "runtime"

	"github.com/fufuok/cache/verifsim/simrt"
)

type (
	MemStats = rr.MemStats
	Frame    = rr.Frame
	Frames   = rr.Frames
	Func     = rr.Func
	Error    = rr.Error
)

const (
	GOOS     = rr.GOOS
	GOARCH   = rr.GOARCH
	Compiler = rr.Compiler
)

func Gosched() { simrt.Gosched() }

func GOMAXPROCS(n int) int                    { return rr.GOMAXPROCS(n) }
func NumCPU() int                             { return rr.NumCPU() }
func NumGoroutine() int                       { return rr.NumGoroutine() }
func GC()                                     { rr.GC() }
func KeepAlive(x interface{})                 { rr.KeepAlive(x) }
func SetFinalizer(obj, finalizer interface{}) { rr.SetFinalizer(obj, finalizer) }
func Goexit()                                 { rr.Goexit() }
func Caller(skip int) (uintptr, string, int, bool) {
	return rr.Caller(skip + 1)
}
func Callers(skip int, pc []uintptr) int { return rr.Callers(skip+1, pc) }
func CallersFrames(pc []uintptr) *Frames { return rr.CallersFrames(pc) }
func FuncForPC(pc uintptr) *Func         { return rr.FuncForPC(pc) }
func Stack(buf []byte, all bool) int     { return rr.Stack(buf, all) }
func ReadMemStats(m *MemStats)           { rr.ReadMemStats(m) }
func Version() string                    { return rr.Version() }
func LockOSThread()                      { rr.LockOSThread() }
func UnlockOSThread()                    { rr.UnlockOSThread() }
