package sync

// OnceFunc, OnceValue, OnceValues (Go 1.21) on top of the shimmed Once.

func OnceFunc(f func()) func() {
	var once Once
	var valid bool
	var p any
	g := func() {
		defer func() {
			p = recover()
			if !valid {
				panic(p)
			}
		}()
		f()
		f = nil
		valid = true
	}
	return func() {
		once.Do(g)
		if !valid {
			panic(p)
		}
	}
}

func OnceValue[T any](f func() T) func() T {
	var once Once
	var valid bool
	var p any
	var result T
	g := func() {
		defer func() {
			p = recover()
			if !valid {
				panic(p)
			}
		}()
		result = f()
		f = nil
		valid = true
	}
	return func() T {
		once.Do(g)
		if !valid {
			panic(p)
		}
		return result
	}
}

func OnceValues[T1, T2 any](f func() (T1, T2)) func() (T1, T2) {
	var once Once
	var valid bool
	var p any
	var r1 T1
	var r2 T2
	g := func() {
		defer func() {
			p = recover()
			if !valid {
				panic(p)
			}
		}()
		r1, r2 = f()
		f = nil
		valid = true
	}
	return func() (T1, T2) {
		once.Do(g)
		if !valid {
			panic(p)
		}
		return r1, r2
	}
}
