// Package sync is the simulator's stand-in for package sync. Mutexes keep the
// real sync.Mutex inside (acquired with TryLock once the scheduler grants it);
// Cond, WaitGroup and Once wait in the scheduler's wait sets.
package sync

import (
	rs "sync"
	"unsafe"

	"github.com/fufuok/cache/verifsim/simrt"
)

type (
	Locker = rs.Locker
	Map    = rs.Map
)

// Pool is a deterministic stand-in for sync.Pool: a LIFO free list that the
// garbage collector never empties (a legal behaviour of the real Pool, whose
// retention is unspecified), so that code using a Pool replays exactly.
type Pool struct {
	New   func() interface{}
	mu    rs.Mutex
	items []interface{}
}

//go:norace
func (p *Pool) Get() interface{} {
	simrt.Yield(simrt.OpLoad, unsafe.Pointer(p))
	p.mu.Lock()
	var x interface{}
	if n := len(p.items); n > 0 {
		x = p.items[n-1]
		p.items[n-1] = nil
		p.items = p.items[:n-1]
	}
	p.mu.Unlock()
	if x == nil && p.New != nil {
		x = p.New()
	}
	return x
}

//go:norace
func (p *Pool) Put(x interface{}) {
	if x == nil {
		return
	}
	simrt.Yield(simrt.OpStore, unsafe.Pointer(p))
	p.mu.Lock()
	p.items = append(p.items, x)
	p.mu.Unlock()
	simrt.NoteWrite()
}

// Mutex must stay 8 bytes (bucketOf pads to a cache line around it).
type Mutex struct{ mu rs.Mutex }

//go:norace
func (m *Mutex) Lock() {
	if simrt.Active() {
		simrt.Yield(simrt.OpLock, unsafe.Pointer(m))
		for !m.mu.TryLock() {
			simrt.MutexBlock(unsafe.Pointer(m))
		}
		return
	}
	if simrt.Killed() {
		m.mu.TryLock()
		return
	}
	if simrt.InSim() {
		if !m.mu.TryLock() {
			panic("simrt: mutex contended outside a running simulation")
		}
		return
	}
	m.mu.Lock()
}

//go:norace
func (m *Mutex) TryLock() bool {
	simrt.Yield(simrt.OpLock, unsafe.Pointer(m))
	return m.mu.TryLock()
}

//go:norace
func (m *Mutex) Unlock() {
	if simrt.Killed() {
		m.mu.TryLock()
		m.mu.Unlock()
		return
	}
	simrt.Yield(simrt.OpUnlock, unsafe.Pointer(m))
	m.mu.Unlock()
	simrt.MutexWake(unsafe.Pointer(m))
}

// RWMutex: the real one inside, acquired with TryLock / TryRLock.
type RWMutex struct{ mu rs.RWMutex }

//go:norace
func (m *RWMutex) Lock() {
	if simrt.Active() {
		simrt.Yield(simrt.OpLock, unsafe.Pointer(m))
		for !m.mu.TryLock() {
			simrt.MutexBlock(unsafe.Pointer(m))
		}
		return
	}
	if simrt.Killed() {
		m.mu.TryLock()
		return
	}
	m.mu.Lock()
}

//go:norace
func (m *RWMutex) TryLock() bool {
	simrt.Yield(simrt.OpLock, unsafe.Pointer(m))
	return m.mu.TryLock()
}

//go:norace
func (m *RWMutex) Unlock() {
	if simrt.Killed() {
		return
	}
	simrt.Yield(simrt.OpUnlock, unsafe.Pointer(m))
	m.mu.Unlock()
	simrt.MutexWake(unsafe.Pointer(m))
}

//go:norace
func (m *RWMutex) RLock() {
	if simrt.Active() {
		simrt.Yield(simrt.OpRLock, unsafe.Pointer(m))
		for !m.mu.TryRLock() {
			simrt.MutexBlock(unsafe.Pointer(m))
		}
		return
	}
	if simrt.Killed() {
		m.mu.TryRLock()
		return
	}
	m.mu.RLock()
}

//go:norace
func (m *RWMutex) TryRLock() bool {
	simrt.Yield(simrt.OpRLock, unsafe.Pointer(m))
	return m.mu.TryRLock()
}

//go:norace
func (m *RWMutex) RUnlock() {
	if simrt.Killed() {
		return
	}
	simrt.Yield(simrt.OpRUnlock, unsafe.Pointer(m))
	m.mu.RUnlock()
	simrt.MutexWake(unsafe.Pointer(m))
}

func (m *RWMutex) RLocker() Locker { return (*rlocker)(m) }

type rlocker RWMutex

func (r *rlocker) Lock()   { (*RWMutex)(r).RLock() }
func (r *rlocker) Unlock() { (*RWMutex)(r).RUnlock() }

// Cond is a condition variable whose wait set lives in the scheduler. It may
// be copied before first use (the code under test does that).
type Cond struct {
	L Locker
}

func NewCond(l Locker) *Cond { return &Cond{L: l} }

//go:norace
func (c *Cond) Wait() {
	if simrt.Active() {
		simrt.Yield(simrt.OpCondWait, unsafe.Pointer(c))
		// Unlock yields before it unlocks and not after, and CondBlock
		// registers the waiter before any other task runs: unlocking and
		// joining the wait set are atomic, as for the real Cond.
		c.L.Unlock()
		simrt.CondBlock(unsafe.Pointer(c))
		c.L.Lock()
		return
	}
	// Outside a simulation: a spurious wake-up (callers must loop anyway).
	c.L.Unlock()
	simrt.Gosched()
	c.L.Lock()
}

//go:norace
func (c *Cond) Broadcast() {
	simrt.Yield(simrt.OpBroadcast, unsafe.Pointer(c))
	simrt.CondWake(unsafe.Pointer(c), true)
}

//go:norace
func (c *Cond) Signal() {
	simrt.Yield(simrt.OpCondWake, unsafe.Pointer(c))
	simrt.CondWake(unsafe.Pointer(c), false)
}

// WaitGroup with scheduler-visible waiting.
type WaitGroup struct {
	n  int64
	mu rs.Mutex
	rw rs.WaitGroup
}

//go:norace
func (wg *WaitGroup) Add(delta int) {
	if !simrt.InSim() {
		wg.rw.Add(delta)
		return
	}
	simrt.Yield(simrt.OpWaitGroup, unsafe.Pointer(wg))
	wg.mu.Lock()
	wg.n += int64(delta)
	n := wg.n
	wg.mu.Unlock()
	if n < 0 {
		panic("sync: negative WaitGroup counter")
	}
	if n == 0 {
		simrt.WGWake(unsafe.Pointer(wg))
	}
}

func (wg *WaitGroup) Done() { wg.Add(-1) }

//go:norace
func (wg *WaitGroup) Wait() {
	if !simrt.InSim() {
		wg.rw.Wait()
		return
	}
	simrt.Yield(simrt.OpWaitGroup, unsafe.Pointer(wg))
	for {
		wg.mu.Lock()
		n := wg.n
		wg.mu.Unlock()
		if n == 0 || !simrt.Active() {
			return
		}
		simrt.WGBlock(unsafe.Pointer(wg))
	}
}

// Once with scheduler-visible waiting.
type Once struct {
	m    Mutex
	done uint32
}

//go:norace
func (o *Once) Do(f func()) {
	simrt.Yield(simrt.OpOnce, unsafe.Pointer(o))
	if o.done == 1 {
		return
	}
	o.m.Lock()
	defer o.m.Unlock()
	if o.done == 0 {
		defer func() { o.done = 1 }()
		f()
	}
}
