// Package time is the simulator's stand-in for package time: Now, timers,
// tickers and Sleep read the simulator's virtual clock when a simulation is
// active and fall through to the real package otherwise.
package time

import (
	rt "time"

	"github.com/fufuok/cache/verifsim/simrt"
)

type (
	Duration   = rt.Duration
	Time       = rt.Time
	Month      = rt.Month
	Weekday    = rt.Weekday
	Location   = rt.Location
	ParseError = rt.ParseError
)

const (
	Nanosecond  = rt.Nanosecond
	Microsecond = rt.Microsecond
	Millisecond = rt.Millisecond
	Second      = rt.Second
	Minute      = rt.Minute
	Hour        = rt.Hour

	Layout      = rt.Layout
	RFC3339     = rt.RFC3339
	RFC3339Nano = rt.RFC3339Nano
	RFC1123     = rt.RFC1123
	Kitchen     = rt.Kitchen

	January = rt.January
	Sunday  = rt.Sunday
)

var (
	UTC   = rt.UTC
	Local = rt.Local
)

func Now() Time {
	if n, ok := simrt.NowNano(); ok {
		return rt.Unix(0, n)
	}
	return rt.Now()
}

func Since(t Time) Duration { return Now().Sub(t) }
func Until(t Time) Duration { return t.Sub(Now()) }

func Unix(sec, nsec int64) Time { return rt.Unix(sec, nsec) }
func UnixMilli(ms int64) Time   { return rt.UnixMilli(ms) }
func UnixMicro(us int64) Time   { return rt.UnixMicro(us) }
func Date(y int, m Month, d, h, mi, s, ns int, l *Location) Time {
	return rt.Date(y, m, d, h, mi, s, ns, l)
}
func ParseDuration(s string) (Duration, error)    { return rt.ParseDuration(s) }
func Parse(layout, value string) (Time, error)    { return rt.Parse(layout, value) }
func LoadLocation(name string) (*Location, error) { return rt.LoadLocation(name) }
func FixedZone(name string, off int) *Location    { return rt.FixedZone(name, off) }

func Sleep(d Duration) {
	if simrt.Sleep(int64(d)) {
		return
	}
	if simrt.InSim() {
		return // set-up phase of a simulation: sleeping would only burn real time
	}
	rt.Sleep(d)
}

// Ticker mirrors time.Ticker.
type Ticker struct {
	C    <-chan Time
	h    *simrt.TimerHandle
	d    Duration
	real *rt.Ticker
}

func NewTicker(d Duration) *Ticker {
	if d <= 0 {
		panic("non-positive interval for NewTicker")
	}
	if h, ch, ok := simrt.NewTimer(int64(d), int64(d), nil); ok {
		return &Ticker{C: ch, h: h, d: d}
	}
	r := rt.NewTicker(d)
	return &Ticker{C: r.C, real: r}
}

func (t *Ticker) Stop() {
	if t.real != nil {
		t.real.Stop()
		return
	}
	if simrt.Killed() {
		return
	}
	t.h.Stop()
}

func (t *Ticker) Reset(d Duration) {
	if d <= 0 {
		panic("non-positive interval for Ticker.Reset")
	}
	if t.real != nil {
		t.real.Reset(d)
		return
	}
	t.h.Reset(int64(d), int64(d))
}

func Tick(d Duration) <-chan Time {
	if d <= 0 {
		return nil
	}
	return NewTicker(d).C
}

// Timer mirrors time.Timer.
type Timer struct {
	C    <-chan Time
	h    *simrt.TimerHandle
	real *rt.Timer
}

func NewTimer(d Duration) *Timer {
	if h, ch, ok := simrt.NewTimer(int64(d), 0, nil); ok {
		return &Timer{C: ch, h: h}
	}
	r := rt.NewTimer(d)
	return &Timer{C: r.C, real: r}
}

func (t *Timer) Stop() bool {
	if t.real != nil {
		return t.real.Stop()
	}
	if simrt.Killed() {
		return false
	}
	return t.h.Stop()
}

func (t *Timer) Reset(d Duration) bool {
	if t.real != nil {
		return t.real.Reset(d)
	}
	return t.h.Reset(int64(d), 0)
}

func After(d Duration) <-chan Time { return NewTimer(d).C }

func AfterFunc(d Duration, f func()) *Timer {
	if h, _, ok := simrt.NewTimer(int64(d), 0, f); ok {
		return &Timer{h: h}
	}
	r := rt.AfterFunc(d, f)
	return &Timer{real: r}
}
