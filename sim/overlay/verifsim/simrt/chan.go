package simrt

import (
	"reflect"
	"sync/atomic"
)

// Channel seams. The rewriter turns plain receive expressions `<-ch` into
// simrt.Recv(ch) / simrt.Recv2(ch) and `close(ch)` into simrt.Close(ch), so
// that a task waiting on a channel waits in the scheduler instead of blocking
// the goroutine that holds the baton. Sends are not rewritten (see DESIGN 10).

var chanEvents int32 // bumped by Close; makes the scheduler poll waiting receivers

// Close closes the channel (it may be called from outside the simulation,
// e.g. by a finalizer: it never touches scheduler state).
func Close(ch interface{}) {
	reflect.ValueOf(ch).Close()
	atomic.AddInt32(&chanEvents, 1)
}

// Recv receives from ch, waiting in the scheduler while it would block.
func Recv[C ~chan T | ~<-chan T, T any](ch C) T {
	v, _ := Recv2[C, T](ch)
	return v
}

// Recv2 is the comma-ok form.
func Recv2[C ~chan T | ~<-chan T, T any](ch C) (T, bool) {
	s := cur
	if s == nil || !s.running || s.killed {
		v, ok := <-ch
		return v, ok
	}
	rv, ok := s.recv(reflect.ValueOf(ch))
	var zero T
	if !ok || !rv.IsValid() {
		return zero, false
	}
	return rv.Interface().(T), true
}

// recv: returns (value, true) for a received value, (zero, false) when the
// channel is closed and drained.
//
//go:norace
func (s *Sim) recv(c reflect.Value) (reflect.Value, bool) {
	t := s.cur
	s.step(OpSelect, 0, false)
	for {
		if c.IsValid() && !c.IsNil() {
			v, ok := c.TryRecv()
			if ok {
				return v, true
			}
			if v.IsValid() {
				return v, false // closed
			}
		}
		t.selChans = append(t.selChans[:0], c)
		t.selPeekOnly = true
		s.block(t, bkSelect, 0)
		t.selPeekOnly = false
	}
}

// chanPollNeeded reports (and clears) whether a channel was closed since the
// last poll.
//
//go:norace
func chanPollNeeded() bool {
	return atomic.SwapInt32(&chanEvents, 0) != 0
}
