package simrt

import (
	"reflect"
	goruntime "runtime"
	"sync/atomic"
	"unsafe"
)

// Channel seams. The rewriter turns plain receive expressions `<-ch` into
// simrt.Recv(ch) / simrt.Recv2(ch) and `close(ch)` into simrt.Close(ch), so
// that a task waiting on a channel waits in the scheduler instead of blocking
// the goroutine that holds the baton. Send statements `ch <- v` become
// simrt.Send(ch, v): a send that would block (unbuffered channel, full buffer)
// is registered as pending and the sender waits in the scheduler until a
// simulated receiver takes the value (a rendezvous decided by the scheduler,
// not by the Go runtime).

var chanEvents int32 // bumped by Close; makes the scheduler poll waiting receivers

// Close closes the channel (it may be called from outside the simulation,
// e.g. by a finalizer: it never touches scheduler state).
func Close(ch interface{}) {
	reflect.ValueOf(ch).Close()
	atomic.AddInt32(&chanEvents, 1)
}

// Recv receives from ch, waiting in the scheduler while it would block.
func Recv[C ~chan T | ~<-chan T, T any](ch C) T {
	v, _ := Recv2[C, T](ch)
	return v
}

// Recv2 is the comma-ok form.
func Recv2[C ~chan T | ~<-chan T, T any](ch C) (T, bool) {
	s := cur
	if s == nil || !s.running || s.killed {
		v, ok := <-ch
		return v, ok
	}
	rv, ok := s.recv(reflect.ValueOf(ch))
	var zero T
	if !ok || !rv.IsValid() {
		return zero, false
	}
	return rv.Interface().(T), true
}

// recv: returns (value, true) for a received value, (zero, false) when the
// channel is closed and drained.
//
//go:norace
func (s *Sim) recv(c reflect.Value) (reflect.Value, bool) {
	t := s.cur
	s.step(OpSelect, 0, false)
	for {
		if c.IsValid() && !c.IsNil() {
			v, ok := s.tryRecvPend(c)
			if ok {
				return v, true
			}
			if v.IsValid() {
				return v, false // closed
			}
		}
		t.selChans = append(t.selChans[:0], c)
		t.selPeekOnly = true
		s.block(t, bkSelect, 0)
		t.selPeekOnly = false
	}
}

// chanPollNeeded reports (and clears) whether a channel was closed since the
// last poll.
//
//go:norace
func chanPollNeeded() bool {
	return atomic.SwapInt32(&chanEvents, 0) != 0
}

// ---------------------------------------------------------------------------
// Sends.

type pendSend struct {
	ch    uintptr
	v     reflect.Value
	t     *Task
	taken bool
	retry bool
	grp   *selGroup // the send is one case of a blocking select
	idx   int       // its case index
}

// selGroup: the pending sends of one blocking select; at most one fires.
type selGroup struct {
	fired bool
	idx   int
}

// Send sends v on ch. Inside a simulation a send that would block waits in the
// scheduler; outside (or from a goroutine that is not the running task, e.g.
// a finalizer) it is the plain send.
func Send[C ~chan T | ~chan<- T, T any](ch C, v T) {
	s := cur
	if s == nil || !s.running || s.killed || !s.onTaskGoroutine() {
		atomic.AddInt32(&chanEvents, 1)
		ch <- v
		return
	}
	s.send(reflect.ValueOf(ch), reflect.ValueOf(&v).Elem())
}

//go:norace
func (s *Sim) send(c, v reflect.Value) {
	t := s.cur
	s.step(OpSelect, 0, false)
	s.WriteEpoch++
	if !c.IsValid() || c.IsNil() {
		for {
			s.block(t, bkSend, 0) // a send on a nil channel blocks for ever
		}
	}
	for {
		if !s.hasPend(c.Pointer()) && c.TrySend(v) {
			s.pollSel = true
			return
		}
		p := &pendSend{ch: c.Pointer(), v: v, t: t}
		s.pend = append(s.pend, p)
		s.pollSel = true
		raceRelease(unsafe.Pointer(p)) // what the sender did happens-before the receive
		for !p.taken && !p.retry {
			s.block(t, bkSend, 0)
		}
		raceAcquire(unsafe.Pointer(p)) // the receive happens-before the completion of the send
		if p.taken {
			p.v = reflect.Value{}
			return
		}
	}
}

//go:norace
func (s *Sim) hasPend(ch uintptr) bool {
	for _, p := range s.pend {
		if p.ch == ch && (p.grp == nil || !p.grp.fired) {
			return true
		}
	}
	return false
}

// dropPend withdraws pending sends (of a select that has been decided).
//
//go:norace
func (s *Sim) dropPend(g *selGroup) {
	k := 0
	for _, p := range s.pend {
		if p.grp != g {
			s.pend[k] = p
			k++
		}
	}
	for i := k; i < len(s.pend); i++ {
		s.pend[i] = nil
	}
	s.pend = s.pend[:k]
}

func (p *pendSend) syncAddr() unsafe.Pointer {
	if p.grp != nil {
		return unsafe.Pointer(p.grp)
	}
	return unsafe.Pointer(p)
}

// takePend removes and returns the oldest pending send on ch.
//
//go:norace
func (s *Sim) takePend(ch uintptr) *pendSend {
	for i, p := range s.pend {
		if p.ch == ch && (p.grp == nil || !p.grp.fired) {
			if p.grp != nil {
				p.grp.fired, p.grp.idx = true, p.idx
			}
			// element-wise: runtime.slicecopy is instrumented even under go:norace
			for j := i; j+1 < len(s.pend); j++ {
				s.pend[j] = s.pend[j+1]
			}
			s.pend[len(s.pend)-1] = nil // no stale reference to the value in the backing array
			s.pend = s.pend[:len(s.pend)-1]
			return p
		}
	}
	return nil
}

//go:norace
func (s *Sim) wakeSender(p *pendSend) {
	if p.t.state == stBlocked && (p.t.bk == bkSend || (p.grp != nil && p.t.bk == bkSelect)) {
		p.t.state = stRunnable
		p.t.bk = bkNone
	}
	s.WriteEpoch++
}

// tryRecvPend: like tryRecv of the real channel, but pending simulated senders
// count: with an empty buffer the oldest pending value is handed over, after a
// buffered value was taken the oldest pending sender moves into the buffer.
// Result as reflect.Value.TryRecv: (v, true) received; (valid zero, false)
// closed; (invalid, false) would block.
//
//go:norace
func (s *Sim) tryRecvPend(c reflect.Value) (reflect.Value, bool) {
	v, ok := c.TryRecv()
	if ok {
		if p := s.takePend(c.Pointer()); p != nil {
			raceAcquire(p.syncAddr())
			if c.TrySend(p.v) {
				p.taken = true
			} else if p.grp != nil {
				// a select's send case that could not move into the buffer
				// after all: let the select try again
				p.grp.fired = false
				p.retry = true
			} else {
				p.retry = true
			}
			raceRelease(p.syncAddr())
			s.wakeSender(p)
		}
		return v, true
	}
	if v.IsValid() {
		return v, false // closed
	}
	if p := s.takePend(c.Pointer()); p != nil {
		raceAcquire(p.syncAddr())
		pv := p.v
		p.taken = true
		raceRelease(p.syncAddr())
		s.wakeSender(p)
		return pv, true
	}
	return v, false
}

// ---------------------------------------------------------------------------
// General select (rewrite rule 9): receive cases with or without assignment,
// send cases, default.

// SelCase is one communication clause.
type SelCase struct {
	send bool
	ch   reflect.Value
	v    reflect.Value
}

// RecvCase: `case <-ch`, `case v := <-ch`, `case v, ok = <-ch`.
func RecvCase(ch interface{}) SelCase { return SelCase{ch: reflect.ValueOf(ch)} }

// SendCase: `case ch <- v`.
func SendCase[C ~chan T | ~chan<- T, T any](ch C, v T) SelCase {
	return SelCase{send: true, ch: reflect.ValueOf(ch), v: reflect.ValueOf(&v).Elem()}
}

// As gives the received value its static type (the zero value for a closed channel).
func As[C ~chan T | ~<-chan T, T any](ch C, v interface{}) T {
	if v == nil {
		var zero T
		return zero
	}
	return v.(T)
}

// Idx returns i (it also uses the other two results of SelectX, which a
// clause list without assignments would leave unused).
func Idx(i int, v interface{}, ok bool) int { return i }

// SelectX executes a select statement: the index of the chosen case (-1: the
// default clause), the received value and the comma-ok flag.
func SelectX(hasDefault bool, cases ...SelCase) (int, interface{}, bool) {
	s := cur
	if s == nil || !s.running || s.killed || !s.onTaskGoroutine() {
		if s != nil && s.killed && s.onTaskGoroutine() {
			goruntime.Goexit()
		}
		rc := make([]reflect.SelectCase, 0, len(cases)+1)
		for _, c := range cases {
			if c.send {
				rc = append(rc, reflect.SelectCase{Dir: reflect.SelectSend, Chan: c.ch, Send: c.v})
			} else {
				rc = append(rc, reflect.SelectCase{Dir: reflect.SelectRecv, Chan: c.ch})
			}
		}
		if hasDefault {
			rc = append(rc, reflect.SelectCase{Dir: reflect.SelectDefault})
		}
		atomic.AddInt32(&chanEvents, 1)
		i, v, ok := reflect.Select(rc)
		if hasDefault && i == len(cases) {
			return -1, nil, false
		}
		if cases[i].send || !ok {
			return i, nil, false
		}
		return i, v.Interface(), true
	}
	return s.selx(hasDefault, cases)
}

//go:norace
func (s *Sim) selx(hasDefault bool, cases []SelCase) (int, interface{}, bool) {
	t := s.cur
	s.step(OpSelect, 0, false)
	for {
		for i, c := range cases {
			if !c.ch.IsValid() || c.ch.IsNil() {
				continue // a nil channel is never ready
			}
			if c.send {
				if !s.hasPend(c.ch.Pointer()) && c.ch.TrySend(c.v) {
					s.pollSel = true
					s.WriteEpoch++
					return i, nil, false
				}
				continue
			}
			v, ok := s.tryRecvPend(c.ch)
			if ok {
				return i, v.Interface(), true
			}
			if v.IsValid() {
				return i, nil, false // closed
			}
		}
		if hasDefault {
			return -1, nil, false
		}
		// block: register the send cases as pending, wait for a receive case
		// to become ready or for a receiver to take one of the sends
		g := &selGroup{}
		t.selChans = t.selChans[:0]
		for i, c := range cases {
			if !c.ch.IsValid() || c.ch.IsNil() {
				continue
			}
			if c.send {
				p := &pendSend{ch: c.ch.Pointer(), v: c.v, t: t, grp: g, idx: i}
				s.pend = append(s.pend, p)
				raceRelease(unsafe.Pointer(g))
				s.pollSel = true
			} else {
				t.selChans = append(t.selChans, c.ch)
			}
		}
		t.selPeekOnly = true
		s.block(t, bkSelect, 0)
		t.selPeekOnly = false
		s.dropPend(g)
		if g.fired {
			raceAcquire(unsafe.Pointer(g))
			return g.idx, nil, false
		}
	}
}
