package simrt

import (
	"reflect"
	"sort"
	gotime "time"
)

// simTimer is a virtual timer or ticker. Like the real ones it owns a
// one-slot channel; a tick that finds the slot full is dropped.
type simTimer struct {
	when   int64
	period int64 // 0: one-shot
	ch     chan gotime.Time
	fn     func()
	seq    uint64
	active bool
}

// TimerHandle is what the shim time package keeps.
type TimerHandle struct{ t *simTimer }

// NowNano returns the virtual time and whether a simulation is active.
//
//go:norace
func NowNano() (int64, bool) {
	s := cur
	if s == nil || s.ended {
		return 0, false
	}
	if s.running && !s.killed {
		s.step(OpNow, 0, false)
		s.NowCalls++
		if s.NowHook != nil {
			s.NowHook(s)
		}
	}
	return s.now, true
}

// Now returns the virtual time of the simulation (driver use; no yield).
//
//go:norace
func (s *Sim) Now() int64 { return s.now }

// NewTimer registers a virtual timer; period > 0 makes it a ticker.
//
//go:norace
func NewTimer(d, period int64, fn func()) (*TimerHandle, chan gotime.Time, bool) {
	s := cur
	if s == nil || s.ended || s.killed {
		return nil, nil, false
	}
	if s.running {
		s.step(OpTimer, 0, false)
	}
	s.timerSeq++
	t := &simTimer{when: satAdd(s.now, d), period: period, seq: s.timerSeq, active: true, fn: fn}
	if fn == nil {
		t.ch = make(chan gotime.Time, 1)
	}
	s.timers = timersAppend(s.timers, t)
	return &TimerHandle{t}, t.ch, true
}

// Stop deactivates the timer; reports whether it was active.
//
//go:norace
func (h *TimerHandle) Stop() bool {
	was := h.t.active
	h.t.active = false
	s := cur
	if s != nil {
		for i, t := range s.timers {
			if t == h.t {
				// element-wise (runtime.slicecopy is instrumented even under
				// go:norace, and successive baton holders are deliberately not
				// ordered for the race detector)
				for j := i; j+1 < len(s.timers); j++ {
					s.timers[j] = s.timers[j+1]
				}
				s.timers[len(s.timers)-1] = nil
				s.timers = s.timers[:len(s.timers)-1]
				break
			}
		}
	}
	return was
}

// Reset re-arms the timer.
//
//go:norace
func (h *TimerHandle) Reset(d, period int64) bool {
	was := h.Stop()
	s := cur
	if s == nil {
		return was
	}
	h.t.when = satAdd(s.now, d)
	h.t.period = period
	h.t.active = true
	s.timerSeq++
	h.t.seq = s.timerSeq
	s.timers = timersAppend(s.timers, h.t)
	return was
}

func satAdd(a, b int64) int64 {
	c := a + b
	if b > 0 && c < a {
		return 1<<63 - 1
	}
	if b < 0 && c > a {
		return -1 << 63
	}
	return c
}

// Sleep blocks the running task until the virtual clock has advanced by d.
//
//go:norace
func Sleep(d int64) bool {
	s := cur
	if s == nil || !s.running || s.killed {
		return false
	}
	t := s.cur
	s.step(OpSleep, 0, false)
	if d <= 0 {
		return true
	}
	t.wakeAt = satAdd(s.now, d)
	for s.now < t.wakeAt {
		s.block(t, bkSleep, 0)
	}
	return true
}

// fireDue delivers every timer event with when <= s.now, in (when, seq) order.
// Returns the number of deliveries attempted.
//
//go:norace
func (s *Sim) fireDue() int {
	n := 0
	for {
		var best *simTimer
		for _, t := range s.timers {
			if t.active && t.when <= s.now && (best == nil || t.when < best.when || (t.when == best.when && t.seq < best.seq)) {
				best = t
			}
		}
		if best == nil {
			break
		}
		n++
		if best.period > 0 {
			// a ticker that is far behind drops the missed ticks, as the
			// real one does (slot full): deliver one and skip ahead.
			best.when = satAdd(best.when, best.period)
			if best.when <= s.now {
				k := (s.now - best.when) / best.period
				best.when = satAdd(best.when, k*best.period)
				if best.when <= s.now {
					best.when = satAdd(best.when, best.period)
				}
				s.TicksDrop++ // one coalescing event (many missed ticks)
			}
		} else {
			best.active = false
			for i, t := range s.timers {
				if t == best {
					for j := i; j+1 < len(s.timers); j++ {
						s.timers[j] = s.timers[j+1]
					}
					s.timers[len(s.timers)-1] = nil
					s.timers = s.timers[:len(s.timers)-1]
					break
				}
			}
		}
		if best.fn != nil {
			f := best.fn
			s.TickLog = append(s.TickLog, s.now)
			s.spawnTimerFunc(f)
		} else {
			select {
			case best.ch <- gotime.Unix(0, s.now):
				s.TicksSent++
				s.TickLog = append(s.TickLog, s.now)
			default:
				s.TicksDrop++
			}
		}
	}
	if n > 0 {
		s.pollSel = true
	}
	for _, t := range s.tasks {
		if t.state == stBlocked && t.bk == bkSleep && t.wakeAt <= s.now {
			t.state = stRunnable
			t.bk = bkNone
		}
	}
	return n
}

func (s *Sim) spawnTimerFunc(f func()) { s.spawn("afterfunc", f, true) }

// nextEvent returns the earliest timer / sleeper deadline.
//
//go:norace
func (s *Sim) nextEvent() (int64, bool) {
	var best int64
	ok := false
	for _, t := range s.timers {
		if t.active && (!ok || t.when < best) {
			best, ok = t.when, true
		}
	}
	for _, t := range s.tasks {
		if t.state == stBlocked && t.bk == bkSleep && (!ok || t.wakeAt < best) {
			best, ok = t.wakeAt, true
		}
	}
	return best, ok
}

// advanceToTimer: nothing is runnable; if some task's progress depends on
// virtual time (a sleeper, or a foreground task selecting while timers exist),
// jump the clock to the next event. Background tasks parked on a ticker do not
// keep a run alive.
//
//go:norace
func (s *Sim) advanceToTimer() bool {
	need := false
	for _, t := range s.tasks {
		if t.state != stBlocked {
			continue
		}
		if t.bk == bkSleep || (t.bk == bkSelect && !t.Background && s.waitsOnTimer(t)) {
			need = true
		}
	}
	if !need {
		return false
	}
	when, ok := s.nextEvent()
	if !ok {
		return false
	}
	if when > s.now {
		s.SimTime += when - s.now
		s.now = when
	}
	s.AutoAdv++
	if s.AutoAdv > 1000000 {
		return false // watchdog: never spin on the virtual clock
	}
	s.WriteEpoch++
	s.fireDue()
	return true
}

// waitsOnTimer: one of the channels the task selects on belongs to an active
// virtual timer (only then can moving the clock wake it).
//
//go:norace
func (s *Sim) waitsOnTimer(t *Task) bool {
	for _, c := range t.selChans {
		if !c.IsValid() || c.IsNil() {
			continue
		}
		p := c.Pointer()
		for _, tm := range s.timers {
			if tm.active && tm.ch != nil && reflect.ValueOf(tm.ch).Pointer() == p {
				return true
			}
		}
	}
	return false
}

// Advance moves the virtual clock forward by d (d may be 0) and delivers the
// timer events that became due. It may be called by the driver between Runs
// or by the running task. Tick instants crossed by one Advance are delivered
// one at a time with the clock standing at that instant; if settle is true the
// caller (a running task) waits for background quiescence after each delivery.
// At most maxTicks instants are stopped at (first ones and the last one); the
// rest are coalesced as a slow receiver would see them.
//
//go:norace
func (s *Sim) Advance(d int64, settle bool, maxTicks int) {
	if d < 0 {
		// backward jump: just move; no timers fire
		s.now += d
		s.WriteEpoch++
		return
	}
	target := satAdd(s.now, d)
	s.SimTime += target - s.now
	s.WriteEpoch++
	stops := 0
	if maxTicks <= 0 {
		maxTicks = 3
	}
	for settle && s.running {
		when, ok := s.nextEvent()
		if !ok || when > target {
			break
		}
		if stops >= maxTicks-1 {
			// jump to the last event instant <= target (legal coalescing)
			last := s.lastEventBefore(target)
			if last > s.now {
				s.now = last
			}
			s.fireDue()
			Settle()
			break
		}
		if when > s.now {
			s.now = when
		}
		s.fireDue()
		stops++
		Settle()
	}
	s.now = target
	s.fireDue()
	if settle && s.running {
		Settle()
	}
}

//go:norace
func (s *Sim) lastEventBefore(target int64) int64 {
	var last int64 = s.now
	for _, t := range s.timers {
		if !t.active || t.when > target {
			continue
		}
		w := t.when
		if t.period > 0 {
			w = t.when + ((target-t.when)/t.period)*t.period
		}
		if w > last {
			last = w
		}
	}
	return last
}

// SetNow sets the virtual clock without firing anything (driver use for
// backward jumps and mid-operation jumps).
//
//go:norace
func (s *Sim) SetNow(n int64) {
	if n > s.now {
		s.SimTime += n - s.now
	}
	s.now = n
	s.WriteEpoch++
}

// ActiveTimers lists deadlines of active timers (sorted), for the driver.
func (s *Sim) ActiveTimers() []int64 {
	var r []int64
	for _, t := range s.timers {
		if t.active {
			r = append(r, t.when)
		}
	}
	sort.Slice(r, func(i, j int) bool { return r[i] < r[j] })
	return r
}

// timersAppend appends without runtime.growslice/slicecopy (see Stop).
//
//go:norace
func timersAppend(ts []*simTimer, t *simTimer) []*simTimer {
	if len(ts) < cap(ts) {
		ts = ts[:len(ts)+1]
		ts[len(ts)-1] = t
		return ts
	}
	n := make([]*simTimer, len(ts)+1, 2*cap(ts)+4)
	for i := range ts {
		n[i] = ts[i]
	}
	n[len(ts)] = t
	return n
}
