package simrt

import (
	"math"
	"reflect"
	"unsafe"
)

// Hash seam. The code under test calls runtime.fastrand (table seeds),
// runtime.memhash (string keys) and runtime.typehash (generic keys) through
// verifFastrand / verifMemhash / verifTypehash (a file the rewriter adds to
// package xsync), which land here.

// HashMode of the process.
type HashMode int

const (
	HashNative  HashMode = iota // the real runtime functions
	HashDet                     // deterministic hash of the key's Go-equality-canonical encoding
	HashCollide                 // HashDet reduced to CollideN distinct values
	HashSplit                   // half of the keys collide into CollideN values, the other half keep HashDet
)

var (
	hashMode HashMode
	collideN uint64 = 1
	seedRNG  *RNG
	// SeedCalls counts table-seed draws (two per table).
	SeedCalls uint64
	HashCalls uint64
)

// SetHashMode configures the seam; seed feeds the table-seed stream.
func SetHashMode(m HashMode, n int, seed uint64) {
	hashMode = m
	if n < 1 {
		n = 1
	}
	collideN = uint64(n)
	seedRNG = NewRNG(seed, 0x7AB1E5EED)
}

//go:linkname rtFastrand runtime.fastrand
func rtFastrand() uint32

//go:linkname rtMemhash runtime.memhash
//go:noescape
func rtMemhash(p unsafe.Pointer, h, s uintptr) uintptr

//go:linkname rtTypehash runtime.typehash
//go:noescape
func rtTypehash(t uintptr, p unsafe.Pointer, h uintptr) uintptr

// Fastrand replaces runtime.fastrand for table seeds.
//
//go:norace
func Fastrand() uint32 {
	if hashMode == HashNative || seedRNG == nil {
		return rtFastrand()
	}
	SeedCalls++
	return uint32(seedRNG.Uint64() >> 32)
}

func reduce(h uint64, seed uintptr) uintptr {
	if hashMode == HashCollide {
		h = h % collideN
	} else if hashMode == HashSplit && mix64(h^0x5117)&1 == 0 {
		h = h % collideN
	}
	r := mix64(h ^ mix64(uint64(seed)+0x1234567))
	if zeroTop && mix64(h^0x70B)&3 == 0 {
		// extreme values: the top 24 bits are zero for a quarter of the keys
		// (code that derives marker bits from the top of the hash must not
		// treat "all zero" as "empty")
		r &= 1<<40 - 1
	}
	return uintptr(r)
}

var zeroTop bool

// SetHashZeroTop switches the extreme-value variant of the deterministic modes.
func SetHashZeroTop(b bool) { zeroTop = b }

// Memhash replaces runtime.memhash.
//
//go:norace
func Memhash(p unsafe.Pointer, seed, n uintptr) uintptr {
	if hashMode == HashNative {
		return rtMemhash(p, seed, n)
	}
	HashCalls++
	return reduce(bytesHash(p, n), seed)
}

//go:norace
func bytesHash(p unsafe.Pointer, n uintptr) uint64 {
	h := uint64(0xcbf29ce484222325)
	for i := uintptr(0); i < n; i++ {
		h ^= uint64(*(*byte)(unsafe.Pointer(uintptr(p) + i)))
		h *= 0x100000001b3
	}
	return mix64(h ^ uint64(n))
}

type eface struct {
	typ  unsafe.Pointer
	word unsafe.Pointer
}

var typeOfInt = reflect.TypeOf(0)

// typeFromWord rebuilds a reflect.Type from a runtime type word.
func typeFromWord(t uintptr) reflect.Type {
	rt := typeOfInt
	(*eface)(unsafe.Pointer(&rt)).word = unsafe.Pointer(t)
	return rt
}

// Typehash replaces runtime.typehash: in the deterministic modes it hashes a
// canonical encoding of the value such that a == b implies equal hashes.
//
//go:norace
func Typehash(t uintptr, p unsafe.Pointer, seed uintptr) uintptr {
	if hashMode == HashNative {
		return rtTypehash(t, p, seed)
	}
	HashCalls++
	return typehashDet(t, p, seed)
}

func typehashDet(t uintptr, p unsafe.Pointer, seed uintptr) uintptr {
	if t == 0 {
		// what the real function would do with a nil type: crash
		panic("simrt: typehash of nil type (nil interface key hashed through its data word)")
	}
	rt := typeFromWord(t)
	switch rt.Kind() {
	case reflect.Int, reflect.Int64, reflect.Uint, reflect.Uint64, reflect.Uintptr:
		return reduce(mix64(*(*uint64)(p)+1), seed)
	case reflect.String:
		s := *(*string)(p)
		sh := (*reflect.StringHeader)(unsafe.Pointer(&s))
		return reduce(bytesHash(unsafe.Pointer(sh.Data), uintptr(sh.Len)), seed)
	}
	v := reflect.NewAt(rt, p).Elem()
	return reduce(valueHash(v, 0x51ed), seed)
}

func valueHash(v reflect.Value, h uint64) uint64 {
	switch v.Kind() {
	case reflect.Bool:
		if v.Bool() {
			return mix64(h ^ 3)
		}
		return mix64(h ^ 5)
	case reflect.Int, reflect.Int8, reflect.Int16, reflect.Int32, reflect.Int64:
		return mix64(h ^ mix64(uint64(v.Int())+1))
	case reflect.Uint, reflect.Uint8, reflect.Uint16, reflect.Uint32, reflect.Uint64, reflect.Uintptr:
		return mix64(h ^ mix64(v.Uint()+1))
	case reflect.Float32, reflect.Float64:
		f := v.Float()
		if f == 0 {
			f = 0 // +0 and -0 are one key
		}
		return mix64(h ^ mix64(math.Float64bits(f)+7))
	case reflect.Complex64, reflect.Complex128:
		c := v.Complex()
		re, im := real(c), imag(c)
		if re == 0 {
			re = 0
		}
		if im == 0 {
			im = 0
		}
		return mix64(mix64(h^math.Float64bits(re)) ^ math.Float64bits(im))
	case reflect.String:
		s := v.String()
		x := uint64(0xcbf29ce484222325)
		for i := 0; i < len(s); i++ {
			x ^= uint64(s[i])
			x *= 0x100000001b3
		}
		return mix64(h ^ mix64(x^uint64(len(s))))
	case reflect.Ptr, reflect.Chan, reflect.UnsafePointer:
		return mix64(h ^ mix64(uint64(v.Pointer())+11))
	case reflect.Array:
		for i := 0; i < v.Len(); i++ {
			h = valueHash(v.Index(i), h+uint64(i))
		}
		return mix64(h ^ 13)
	case reflect.Struct:
		t := v.Type()
		for i := 0; i < v.NumField(); i++ {
			if t.Field(i).Name == "_" {
				continue
			}
			h = valueHash(v.Field(i), h+uint64(i)*31)
		}
		return mix64(h ^ 17)
	case reflect.Interface:
		if v.IsNil() {
			return mix64(h ^ 19)
		}
		e := v.Elem()
		ts := e.Type().String()
		x := uint64(23)
		for i := 0; i < len(ts); i++ {
			x = x*131 + uint64(ts[i])
		}
		return valueHash(e, mix64(h^x))
	}
	panic("simrt: typehash of unhashable kind " + v.Kind().String())
}

// UseHash switches the seam to an instance's configuration (sequential
// scenarios drive sibling instances that differ in hash mode and seed stream).
func UseHash(m HashMode, n int, seeds *RNG) {
	hashMode = m
	if n < 1 {
		n = 1
	}
	collideN = uint64(n)
	seedRNG = seeds
}
