//go:build !race
// +build !race

package simrt

// RaceBuild reports whether the binary was built with -race.
const RaceBuild = false

func raceDisable() {}
func raceEnable()  {}
