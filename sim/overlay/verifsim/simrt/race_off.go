//go:build !race
// +build !race

package simrt

import "unsafe"

// RaceBuild reports whether the binary was built with -race.
const RaceBuild = false

func raceDisable() {}
func raceEnable()  {}

func raceRelease(p unsafe.Pointer) {}
func raceAcquire(p unsafe.Pointer) {}
