//go:build race
// +build race

package simrt

import "runtime"

// RaceBuild reports whether the binary was built with -race.
const RaceBuild = true

func raceDisable() { runtime.RaceDisable() }
func raceEnable()  { runtime.RaceEnable() }
