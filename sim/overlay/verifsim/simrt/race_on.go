//go:build race
// +build race

package simrt

import (
	"runtime"
	"unsafe"
)

// RaceBuild reports whether the binary was built with -race.
const RaceBuild = true

func raceDisable() { runtime.RaceDisable() }
func raceEnable()  { runtime.RaceEnable() }

// happens-before edges for values handed over inside the scheduler (a send
// that met its receiver in the pending-send registry, not in the real channel)
func raceRelease(p unsafe.Pointer) { runtime.RaceReleaseMerge(p) }
func raceAcquire(p unsafe.Pointer) { runtime.RaceAcquire(p) }
