// Package simrt is the deterministic simulator runtime that the shim packages
// (verifsim/shim/{sync,atomic,runtime,time}) call into. One Sim is active per
// OS process at a time. Every task is a real goroutine that only runs while it
// holds the baton; all others are parked on a private channel, so "the current
// task" is unambiguous and the shim functions need no goroutine identity.
//
// The file is written for Go 1.19 (it is compiled inside the scratch copy of
// github.com/fufuok/cache, whose go.mod says go 1.19).
package simrt

import (
	"fmt"
	"reflect"
	goruntime "runtime"
	"unsafe"
)

// OpKind labels a yield point (it is part of the event trace hash).
type OpKind uint8

const (
	OpLoad OpKind = iota + 1
	OpStore
	OpCAS
	OpCASFail
	OpAdd
	OpSwap
	OpLock
	OpUnlock
	OpCondWait
	OpCondWake
	OpBroadcast
	OpGosched
	OpNow
	OpSelect
	OpSleep
	OpUser // explicit driver yield (operation boundary, callback, ...)
	OpPark // explicit park inside a user function
	OpValueLoad
	OpValueStore
	OpGo
	OpTimer
	OpRLock
	OpRUnlock
	OpWaitGroup
	OpOnce
)

type taskState uint8

const (
	stRunnable taskState = iota
	stBlocked
	stStalled // frozen by a stall fault for the rest of the run (or until Unstall)
	stDone
)

// stallMaxSteps bounds a resumable stall (in steps of the other tasks).
const stallMaxSteps = 30000

type blockKind uint8

const (
	bkNone blockKind = iota
	bkMutex
	bkCond
	bkSelect
	bkSleep
	bkQuiesce
	bkWaitGroup
	bkPark
	bkSend
)

// Outcome of a Run.
type Outcome int

const (
	OutOK       Outcome = iota
	OutDeadlock         // some foreground task unfinished and nothing can ever run
	OutLivelock         // every runnable task spins (Gosched) and no write happened
	OutBudget           // step budget exceeded without a proof (watchdog)
	OutPanic            // a task panicked
)

func (o Outcome) String() string {
	switch o {
	case OutOK:
		return "ok"
	case OutDeadlock:
		return "deadlock"
	case OutLivelock:
		return "livelock"
	case OutBudget:
		return "step-budget"
	case OutPanic:
		return "panic"
	}
	return "?"
}

// Task is one simulated thread of control.
type Task struct {
	ID         int
	Name       string
	Background bool
	Optional   bool // allowed to stay blocked or spinning when the run ends (bystanders behind a stalled victim)

	wake   chan struct{}
	exited chan struct{}
	fin    chan struct{}
	gate   chan struct{}
	fn     func()

	state     taskState
	bk        blockKind
	blockAddr uintptr
	wakeAt    int64
	selChans  []reflect.Value
	gid       uint64 // id of the goroutine that runs the task
	selIndex  int
	// selPeekOnly: the task waits in Recv: wake it when the channel is ready
	// but leave the value for the task to receive itself
	selPeekOnly bool

	roEpoch    uint64 // write epoch at the task's latest step
	roSteps    int    // consecutive own steps during which nothing in the system was written
	goschedSeq uint64
	yielding   bool   // called Gosched and not every other runnable task has stepped since
	lastStep   uint64 // Seq of the task's latest step
	spinEpoch  uint64
	spinCount  int

	Steps     int // own synchronisation steps
	Waits     int // times the task joined a wait set (mutex, cond, waitgroup)
	Gosched   int // Gosched calls
	StallAt   int // freeze when Steps reaches this value (0 = never)
	// StallResume: the freeze ends when nothing else can make progress (every
	// other task is done, blocked or spinning): "faults stop", then every call
	// must still return.
	StallResume bool
	DelayAt   int // drop priority at this step (PCT change point / delay fault)
	prio      int
	PanicVal  interface{}
	PanicText string
	started   bool

	// Marks are set by the driver (e.g. "current operation index") and are
	// reported in deadlock explanations.
	Mark     int
	OpSteps  int // steps since the driver last called ResetOpSteps
	// CallSteps: steps since the task's current top-level call began (nested
	// calls included); negative while the task runs a driver-level bulk operation
	CallSteps int
	OpWaits  int
	OpSpins  int
	MaxSpins int
}

// Config of one simulation.
type Config struct {
	Seed       uint64
	Strategy   StrategyConfig
	StepBudget uint64
	// CallStepLimit: one top-level call that takes more than this many steps of
	// its own is reported as never returning (0: no limit)
	CallStepLimit int
	Epoch      int64 // initial virtual time, ns since the Unix epoch
	SpinLimit  int   // consecutive Gosched calls (per task, no write in the system) that prove a livelock
	Replay     []uint16
	KeepTrace  bool
}

// Sim is the simulation state. Exactly one is active (package variable cur).
type Sim struct {
	cfg   Config
	tasks []*Task
	cur   *Task

	running bool
	killed  bool
	ended   bool

	Seq        uint64
	WriteEpoch uint64
	Switches   uint64
	TraceHash  uint64
	Decisions  []uint16 // chosen task id at every step
	Trace      []TraceEvent

	now      int64
	timers   []*simTimer
	timerSeq uint64
	pollSel  bool
	stallSeq uint64 // Seq at which the current resumable stall began (0: none)
	pend     []*pendSend // sends waiting for a simulated receiver
	SimTime  int64 // total virtual time advanced

	strat   strategy
	outcome Outcome
	Explain string

	mainWake chan struct{}
	gate     chan struct{}

	cand []*Task

	addrTab  []addrSlot
	addrN    uint32
	replayAt int
	Diverged bool

	// counters (probes)
	CASFail     uint64
	MutexBlocks uint64
	CondWaits   uint64
	Broadcasts  uint64
	TicksSent   uint64
	TickLog     []int64 // virtual instants at which a tick was delivered
	TicksDrop   uint64
	AutoAdv     uint64
	StallsFired uint64
	StallsResumed uint64
	DelaysFired uint64
	NowCalls    uint64

	// NowHook, when set, is called on every time.Now() inside a running task
	// (mid-operation clock jump fault).
	NowHook func(s *Sim)

	// EndEarly ends a Run as soon as every required task (foreground, not
	// optional, not stalled) has finished, even if others are still runnable.
	EndEarly bool
}

type TraceEvent struct {
	Task int
	Kind OpKind
	Addr uint32
}

type addrSlot struct {
	addr uintptr
	ord  uint32
}

var cur *Sim

// New creates a simulation and makes it the active one.
func New(cfg Config) *Sim {
	if cur != nil && !cur.ended {
		panic("simrt: previous simulation still active")
	}
	if cfg.StepBudget == 0 {
		cfg.StepBudget = 2000000
	}
	if cfg.SpinLimit == 0 {
		cfg.SpinLimit = 200
	}
	s := &Sim{cfg: cfg, now: cfg.Epoch}
	s.mainWake = make(chan struct{}, 1)
	s.gate = make(chan struct{})
	s.cand = make([]*Task, 0, 64)
	s.addrTab = make([]addrSlot, 1024)
	s.Decisions = make([]uint16, 0, 4096)
	s.strat = newStrategy(cfg.Strategy, cfg.Seed)
	s.TraceHash = 0x9E3779B97F4A7C15
	cur = s
	return s
}

// Current returns the active simulation or nil.
func Current() *Sim { return cur }

// Active reports whether the caller runs inside a scheduled task.
//
//go:norace
func Active() bool {
	s := cur
	return s != nil && s.running && !s.killed
}

// InSim reports whether a simulation exists (running or in its set-up phase).
//
//go:norace
func InSim() bool {
	s := cur
	return s != nil && !s.ended
}

// Killed reports whether the active simulation is being torn down.
//
//go:norace
func Killed() bool {
	s := cur
	return s != nil && s.killed
}

// Spawn registers a foreground task. It starts running at the next Run.
func (s *Sim) Spawn(name string, fn func()) *Task {
	return s.spawn(name, fn, false)
}

// SpawnBackground registers a background task (a task that is allowed to stay
// parked in a Select when the run ends).
func (s *Sim) SpawnBackground(name string, fn func()) *Task {
	return s.spawn(name, fn, true)
}

//go:norace
func (s *Sim) spawn(name string, fn func(), bg bool) *Task {
	t := &Task{ID: len(s.tasks), Name: name, Background: bg, fn: fn, CallSteps: -1 << 40} // no call yet (goroutines of the code under test never are "in a call")
	t.wake = make(chan struct{}, 1)
	t.exited = make(chan struct{})
	t.fin = make(chan struct{})
	t.gate = s.gate
	if s.running {
		// spawned by a running task: goroutine creation itself is the
		// happens-before edge, no gate needed.
		t.gate = nil
	}
	s.tasks = append(s.tasks, t)
	go taskMain(s, t)
	return t
}

func taskMain(s *Sim, t *Task) {
	if t.gate != nil {
		<-t.gate // real synchronisation: set-up happens-before the task
	}
	parkRecv(t.wake)
	if simKilled(s) {
		close(t.exited)
		return
	}
	defer taskExit(s, t)
	t.started = true
	t.gid = goid()
	t.fn()
}

//go:norace
func simKilled(s *Sim) bool { return s.killed }

func taskExit(s *Sim, t *Task) {
	r := recover()
	close(t.fin) // real synchronisation: everything the task did happens-before readers of fin
	taskExit2(s, t, r)
	close(t.exited)
}

//go:norace
func taskExit2(s *Sim, t *Task, r interface{}) {
	t.state = stDone
	t.fn = nil // the closure may be the last reference to what the task worked on
	t.selChans = nil
	if s.killed {
		return
	}
	if r != nil {
		t.PanicVal = r
		buf := make([]byte, 8192)
		n := goruntime.Stack(buf, false)
		t.PanicText = fmt.Sprintf("%v\n%s", r, buf[:n])
		s.endRun(OutPanic, fmt.Sprintf("task %d (%s) panicked: %v", t.ID, t.Name, r))
		return
	}
	if s.EndEarly && s.requiredDone() {
		s.finishRun(nil)
		return
	}
	next := s.pick(nil)
	if next == nil {
		s.noRunnable(nil)
		return
	}
	s.cur = next
	s.Switches++
	parkSend(next.wake)
}

//go:norace
func (s *Sim) requiredDone() bool {
	for _, t := range s.tasks {
		if t.Background || t.Optional || t.state == stStalled {
			continue
		}
		if t.state != stDone {
			return false
		}
	}
	return true
}

// Go is what a rewritten `go f()` statement calls. Outside a simulation it
// is a plain go statement; inside, the function becomes a background task.
func Go(fn func()) {
	s := cur
	if s == nil || s.ended || s.killed {
		go fn()
		return
	}
	if s.running {
		Yield(OpGo, nil)
	}
	s.spawn("go", fn, true)
}

// Run schedules tasks until every foreground task has finished and every
// background task is parked, or until a deadlock / livelock / budget stop.
func (s *Sim) Run() Outcome {
	close(s.gate) // real synchronisation with the tasks spawned since the last Run
	s.gate = make(chan struct{})
	return s.run()
}

//go:norace
func (s *Sim) run() Outcome {
	if s.outcome != OutOK {
		return s.outcome
	}
	s.running = true
	s.pollSel = true
	next := s.pick(nil)
	if next == nil {
		if !s.advanceToTimer() {
			s.running = false
			s.checkEnd()
			return s.outcome
		}
		next = s.pick(nil)
		if next == nil {
			s.running = false
			return s.outcome
		}
	}
	s.cur = next
	parkSend(next.wake)
	parkRecv(s.mainWake)
	s.running = false
	s.cur = nil
	return s.outcome
}

// WaitFin makes everything finished tasks did happen-before the caller (real
// synchronisation; needed under the race detector only).
func (s *Sim) WaitFin() {
	for _, t := range s.tasks {
		if taskDone(t) {
			<-t.fin
		}
	}
}

//go:norace
func taskDone(t *Task) bool { return t.state == stDone }

// Close kills every unfinished task and deactivates the simulation.
func (s *Sim) Close() {
	if s.ended {
		return
	}
	closeSim(s)
	close(s.gate) // tasks spawned after the last Run are still waiting for it
	for _, t := range s.tasks {
		select {
		case <-t.exited:
			continue
		default:
		}
		parkSend(t.wake)
		<-t.exited
	}
	endSim(s)
}

//go:norace
func closeSim(s *Sim) { s.killed = true; s.running = false }

//go:norace
func endSim(s *Sim) {
	s.ended = true
	if cur == s {
		cur = nil
	}
}

// Tasks returns the task list.
func (s *Sim) Tasks() []*Task { return s.tasks }

// Outcome so far.
func (s *Sim) Outcome() Outcome { return s.outcome }

// CurTask returns the running task (nil outside Run).
//
//go:norace
func CurTask() *Task {
	s := cur
	if s == nil || !s.running {
		return nil
	}
	return s.cur
}

// Done reports whether the task has finished.
//
//go:norace
func (t *Task) Done() bool { return t.state == stDone }

// Stalled reports whether the task is frozen by a stall fault.
//
//go:norace
func (t *Task) Stalled() bool { return t.state == stStalled }

// BlockedOn describes what the task waits for ("" if runnable or done).
//
//go:norace
func (t *Task) BlockedOn() string {
	switch t.state {
	case stStalled:
		return "stalled"
	case stBlocked:
		switch t.bk {
		case bkMutex:
			return "mutex"
		case bkCond:
			return "cond"
		case bkSelect:
			return "select"
		case bkSleep:
			return "sleep"
		case bkQuiesce:
			return "quiesce"
		case bkWaitGroup:
			return "waitgroup"
		case bkPark:
			return "park"
		case bkSend:
			return "send"
		}
	}
	return ""
}

// ---------------------------------------------------------------------------
// The step: every shim operation calls Yield before doing the real operation.

// Yield is a scheduling point of the running task.
//
//go:norace
func Yield(kind OpKind, addr unsafe.Pointer) {
	s := cur
	if s == nil || !s.running || s.killed {
		return
	}
	s.step(kind, uintptr(addr), false)
}

//go:norace
func (s *Sim) step(kind OpKind, addr uintptr, gosched bool) {
	t := s.cur
	t.Steps++
	t.OpSteps++
	s.Seq++
	t.lastStep = s.Seq
	ord := s.ordinal(addr)
	s.TraceHash = mix64(s.TraceHash ^ (uint64(t.ID)<<40 | uint64(kind)<<32 | uint64(ord)))
	if s.cfg.KeepTrace {
		s.Trace = append(s.Trace, TraceEvent{t.ID, kind, ord})
	}
	t.CallSteps++
	// (not while a victim is frozen for the rest of the run: a writer behind it
	// may legitimately wait for ever)
	if s.cfg.CallStepLimit > 0 && !s.EndEarly && t.CallSteps > s.cfg.CallStepLimit {
		s.endRun(OutLivelock, s.describe(fmt.Sprintf("livelock: one call has taken more than %d steps of its own without returning", s.cfg.CallStepLimit)))
		s.parkForever(t)
		return
	}
	if s.Seq > s.cfg.StepBudget {
		s.endRun(OutBudget, fmt.Sprintf("step budget %d exceeded", s.cfg.StepBudget))
		s.parkForever(t)
		return
	}
	// a task that keeps reading while nobody writes and nobody else can run
	// will read the same things for ever (a retry loop without Gosched)
	if t.roEpoch != s.WriteEpoch {
		t.roEpoch, t.roSteps = s.WriteEpoch, 0
	} else {
		t.roSteps++
		if t.roSteps > 200000 && t.OpSteps > 200000 && s.aloneRunnable(t) && s.resumeStalled() == nil {
			s.endRun(OutLivelock, s.describe("livelock: one task has taken 200000 steps inside one call without any write in the system and nobody else can run"))
			s.parkForever(t)
			return
		}
	}
	if gosched {
		t.Gosched++
		t.OpSpins++
		if t.spinEpoch == s.WriteEpoch {
			t.spinCount++
		} else {
			t.spinEpoch = s.WriteEpoch
			t.spinCount = 1
		}
		if t.spinCount > t.MaxSpins {
			t.MaxSpins = t.spinCount
		}
		t.goschedSeq = s.Seq
		t.yielding = true
		if t.spinCount >= s.cfg.SpinLimit && s.allSpinning() && s.resumeStalled() == nil {
			s.endRun(OutLivelock, s.describe("livelock: every runnable task spins without any write"))
			s.parkForever(t)
			return
		}
	}
	if s.stallSeq != 0 && s.Seq-s.stallSeq > stallMaxSteps {
		// a resumable stall is long but finite: tasks that poll (with writes)
		// while they wait for the victim never look like spinners
		s.stallSeq = 0
		s.resumeStalled()
	}
	if t.StallAt > 0 && t.Steps == t.StallAt {
		s.StallsFired++
		t.state = stStalled
		if t.StallResume {
			s.stallSeq = s.Seq
		}
		s.Decisions = append(s.Decisions, uint16(t.ID)|0x8000)
		if s.EndEarly && s.requiredDone() {
			s.finishRun(t)
			return
		}
		next := s.pick(nil)
		if next == nil {
			s.noRunnable(t)
		} else {
			s.switchTo(t, next)
		}
		return
	}
	if t.DelayAt > 0 && t.Steps == t.DelayAt {
		s.DelaysFired++
		s.strat.demote(s, t)
	}
	next := s.pick(t)
	if next != t {
		s.switchTo(t, next)
	}
}

//go:norace
func (s *Sim) aloneRunnable(t *Task) bool {
	for _, u := range s.tasks {
		if u != t && u.state == stRunnable {
			return false
		}
		if u.state == stBlocked && u.bk == bkSleep {
			return false
		}
	}
	return true
}

// allSpinning: every runnable task has been spinning for SpinLimit iterations
// in the current write epoch, and nothing else can become runnable by itself.
//
//go:norace
func (s *Sim) allSpinning() bool {
	for _, t := range s.tasks {
		switch t.state {
		case stRunnable:
			if !t.started && t != s.cur {
				return false
			}
			if t.spinEpoch != s.WriteEpoch || t.spinCount < s.cfg.SpinLimit {
				return false
			}
		case stBlocked:
			if t.bk == bkSleep {
				return false
			}
			if t.bk == bkSelect && (s.selReadyPeek(t) || (t.selPeekOnly && s.selPoll(t))) {
				return false
			}
		}
	}
	return true
}

//go:norace
func (s *Sim) switchTo(t, next *Task) {
	s.cur = next
	s.Switches++
	parkSend(next.wake)
	parkRecv(t.wake)
	if s.killed {
		goruntime.Goexit()
	}
}

//go:norace
func (s *Sim) parkForever(t *Task) {
	parkRecv(t.wake)
	goruntime.Goexit()
}

// block parks the running task in a wait set until something makes it runnable.
//
//go:norace
func (s *Sim) block(t *Task, bk blockKind, addr uintptr) {
	t.state = stBlocked
	t.bk = bk
	t.blockAddr = addr
	if bk == bkMutex || bk == bkCond || bk == bkWaitGroup {
		t.Waits++
		t.OpWaits++
	}
	next := s.pick(nil)
	if next == nil {
		s.noRunnable(t)
		return
	}
	if next == t {
		return
	}
	s.switchTo(t, next)
}

// noRunnable is called by the task that found nothing to hand the baton to.
// cont is that task (nil if it has finished); it parks afterwards.
//
//go:norace
func (s *Sim) noRunnable(cont *Task) {
	for {
		if s.foregroundDone() {
			s.finishRun(cont)
			return
		}
		if !s.advanceToTimer() {
			break
		}
		next := s.pick(nil)
		if next != nil {
			if next == cont {
				return
			}
			s.cur = next
			s.Switches++
			parkSend(next.wake)
			if cont != nil {
				parkRecv(cont.wake)
				if s.killed {
					goruntime.Goexit()
				}
			}
			return
		}
	}
	if t := s.resumeStalled(); t != nil {
		if t == cont {
			return
		}
		s.cur = t
		s.Switches++
		parkSend(t.wake)
		if cont != nil {
			parkRecv(cont.wake)
			if s.killed {
				goruntime.Goexit()
			}
		}
		return
	}
	s.outcome = OutDeadlock
	s.Explain = s.describe("deadlock: unfinished tasks and nothing runnable")
	s.finishRun(cont)
}

// resumeStalled ends the freeze of one resumable stalled task.
//
//go:norace
func (s *Sim) resumeStalled() *Task {
	for _, t := range s.tasks {
		if t.state == stStalled && t.StallResume {
			t.state = stRunnable
			t.StallAt = 0
			s.StallsResumed++
			s.Decisions = append(s.Decisions, uint16(t.ID)|0x4000)
			return t
		}
	}
	return nil
}

//go:norace
func (s *Sim) finishRun(cont *Task) {
	parkSend(s.mainWake)
	if cont != nil {
		parkRecv(cont.wake)
		if s.killed {
			goruntime.Goexit()
		}
	}
}

//go:norace
func (s *Sim) endRun(o Outcome, why string) {
	if s.outcome == OutOK {
		s.outcome = o
		s.Explain = why
	}
	parkSend(s.mainWake)
}

//go:norace
func (s *Sim) checkEnd() {
	if !s.foregroundDone() && s.outcome == OutOK {
		s.outcome = OutDeadlock
		s.Explain = s.describe("deadlock: unfinished tasks and nothing runnable")
	}
}

//go:norace
func (s *Sim) foregroundDone() bool {
	for _, t := range s.tasks {
		if t.Background {
			if t.state == stRunnable {
				return false
			}
			continue
		}
		if t.state == stStalled && !t.StallResume {
			continue // a stalled victim never finishes; the run ends without it
		}
		if t.Optional && t.state == stBlocked {
			continue
		}
		if t.state != stDone {
			return false
		}
	}
	return true
}

//go:norace
func (s *Sim) describe(head string) string {
	str := head
	for _, t := range s.tasks {
		st := "runnable"
		switch t.state {
		case stDone:
			st = "done"
		case stStalled:
			st = "stalled"
		case stBlocked:
			st = "blocked:" + t.BlockedOn()
		}
		str += fmt.Sprintf("; task %d %s %s mark=%d steps=%d spins=%d", t.ID, t.Name, st, t.Mark, t.Steps, t.spinCount)
	}
	return str
}

// pick chooses the next task. self is the running task if it may continue.
//
//go:norace
func (s *Sim) pick(self *Task) *Task {
	if chanPollNeeded() {
		s.pollSel = true
	}
	if s.pollSel {
		s.pollSel = false
		for _, t := range s.tasks {
			if t.state == stBlocked && t.bk == bkSelect {
				s.selPoll(t)
			}
		}
	}
	c := s.cand[:0]
	anySpin := false
	for _, t := range s.tasks {
		if t.state != stRunnable {
			continue
		}
		if t.yielding {
			// fair yield: a task that called Gosched goes to the back of the
			// queue until every other runnable task has taken a step since
			still := false
			for _, u := range s.tasks {
				if u != t && u.state == stRunnable && u.lastStep < t.goschedSeq {
					still = true
					break
				}
			}
			if still {
				anySpin = true
				continue
			}
			t.yielding = false
		}
		c = append(c, t)
	}
	if len(c) == 0 && anySpin {
		for _, t := range s.tasks {
			if t.state == stRunnable {
				c = append(c, t)
			}
		}
	}
	if len(c) == 0 {
		// lowest priority: tasks waiting for background quiescence
		for _, t := range s.tasks {
			if t.state == stBlocked && t.bk == bkQuiesce {
				t.state = stRunnable
				t.bk = bkNone
				c = append(c, t)
			}
		}
	}
	if len(c) == 0 {
		// last resort: poll selects again (a channel may have been closed by
		// something outside the simulation, e.g. a finalizer)
		for _, t := range s.tasks {
			if t.state == stBlocked && t.bk == bkSelect && s.selPoll(t) {
				c = append(c, t)
			}
		}
	}
	s.cand = c
	if len(c) == 0 {
		return nil
	}
	var next *Task
	if s.cfg.Replay != nil {
		next = s.replayPick(c, self)
	} else if len(c) == 1 {
		next = c[0]
	} else {
		next = s.strat.pick(s, c, self)
	}
	s.Decisions = append(s.Decisions, uint16(next.ID))
	return next
}

//go:norace
func (s *Sim) replayPick(c []*Task, self *Task) *Task {
	for s.replayAt < len(s.cfg.Replay) {
		d := s.cfg.Replay[s.replayAt]
		s.replayAt++
		if d&0xC000 != 0 {
			continue // stall / resume marker
		}
		for _, t := range c {
			if t.ID == int(d) {
				return t
			}
		}
		s.Diverged = true
		break
	}
	if self != nil {
		for _, t := range c {
			if t == self {
				return t
			}
		}
	}
	return c[0]
}

// ---------------------------------------------------------------------------
// Wait sets.

// WakeAddr makes every task blocked on (kind, addr) runnable.
//
//go:norace
func (s *Sim) wakeAddr(bk blockKind, addr uintptr, all bool) int {
	n := 0
	if all {
		for _, t := range s.tasks {
			if t.state == stBlocked && t.bk == bk && t.blockAddr == addr {
				t.state = stRunnable
				t.bk = bkNone
				n++
			}
		}
		return n
	}
	// wake one, chosen by the schedule PRNG
	c := s.cand[:0]
	for _, t := range s.tasks {
		if t.state == stBlocked && t.bk == bk && t.blockAddr == addr {
			c = append(c, t)
		}
	}
	if len(c) == 0 {
		return 0
	}
	t := c[0]
	if len(c) > 1 {
		t = c[s.strat.rng().Intn(len(c))]
	}
	t.state = stRunnable
	t.bk = bkNone
	return 1
}

// MutexBlock is called by the shim Mutex when TryLock failed.
//
//go:norace
func MutexBlock(addr unsafe.Pointer) {
	s := cur
	s.MutexBlocks++
	s.block(s.cur, bkMutex, uintptr(addr))
}

// MutexWake is called by the shim Mutex after the real Unlock.
//
//go:norace
func MutexWake(addr unsafe.Pointer) {
	s := cur
	if s == nil || !s.running || s.killed {
		return
	}
	s.WriteEpoch++
	s.wakeAddr(bkMutex, uintptr(addr), true)
}

// CondBlock parks the running task on a condition variable.
//
//go:norace
func CondBlock(addr unsafe.Pointer) {
	s := cur
	s.CondWaits++
	s.block(s.cur, bkCond, uintptr(addr))
}

// CondWake wakes one or all waiters of a condition variable.
//
//go:norace
func CondWake(addr unsafe.Pointer, all bool) {
	s := cur
	if s == nil || !s.running || s.killed {
		return
	}
	s.WriteEpoch++
	s.Broadcasts++
	s.wakeAddr(bkCond, uintptr(addr), all)
}

// WGBlock / WGWake: wait-group style waiters.
//
//go:norace
func WGBlock(addr unsafe.Pointer) {
	s := cur
	s.block(s.cur, bkWaitGroup, uintptr(addr))
}

//go:norace
func WGWake(addr unsafe.Pointer) {
	s := cur
	if s == nil || !s.running || s.killed {
		return
	}
	s.WriteEpoch++
	s.wakeAddr(bkWaitGroup, uintptr(addr), true)
}

// NoteWrite is called by shim operations that may change memory.
//
//go:norace
func NoteWrite() {
	s := cur
	if s != nil {
		s.WriteEpoch++
	}
}

// NoteCASFail counts failed compare-and-swap operations.
//
//go:norace
func NoteCASFail() {
	s := cur
	if s != nil {
		s.CASFail++
	}
}

// Gosched is the shim for runtime.Gosched: a fair yield.
//
//go:norace
func Gosched() {
	s := cur
	if s == nil || !s.running || s.killed {
		goruntime.Gosched()
		return
	}
	s.step(OpGosched, 0, true)
}

// Park freezes the running task until Unpark(t) (used inside user functions
// by the stall fault: the victim parks while holding whatever it holds).
//
//go:norace
func Park() {
	s := cur
	if s == nil || !s.running || s.killed {
		return
	}
	t := s.cur
	t.Steps++
	s.Seq++
	t.lastStep = s.Seq
	s.StallsFired++
	t.state = stStalled
	if t.StallResume {
		s.stallSeq = s.Seq
	}
	if s.EndEarly && s.requiredDone() {
		s.finishRun(t)
		return
	}
	next := s.pick(nil)
	if next == nil {
		s.noRunnable(t)
		return
	}
	s.switchTo(t, next)
}

// ParkResumable freezes the running task until nobody else can make progress
// (a slow callback / slow node: everybody else runs as far as they can, then
// the task continues).
//
//go:norace
func ParkResumable() {
	s := cur
	if s == nil || !s.running || s.killed {
		return
	}
	s.cur.StallResume = true
	Park()
}

// Unstall makes a stalled task runnable again (faults stop).
//
//go:norace
func (s *Sim) Unstall(t *Task) {
	if t.state == stStalled {
		t.state = stRunnable
		t.StallAt = 0
	}
}

// Settle blocks the running foreground task until every background task is
// parked (used by sequential scenarios after a clock advance).
//
//go:norace
func Settle() {
	s := cur
	if s == nil || !s.running || s.killed {
		return
	}
	for s.bgRunnable() {
		s.block(s.cur, bkQuiesce, 0)
	}
}

//go:norace
func (s *Sim) bgRunnable() bool {
	if s.pollSel {
		s.pollSel = false
		for _, t := range s.tasks {
			if t.state == stBlocked && t.bk == bkSelect {
				s.selPoll(t)
			}
		}
	}
	for _, t := range s.tasks {
		if t != s.cur && t.state == stRunnable {
			return true
		}
	}
	return false
}

// BackgroundTasks counts background tasks that have not finished.
//
//go:norace
func (s *Sim) BackgroundTasks() int {
	n := 0
	for _, t := range s.tasks {
		if t.Background && t.state != stDone {
			n++
		}
	}
	return n
}

// ---------------------------------------------------------------------------
// Select (receive-only): used by the rewritten janitor loop.

// Select blocks until one of the channels is ready for receiving, receives
// from it and returns its index. Outside a simulation it is reflect.Select.
func Select(chans ...interface{}) int {
	s := cur
	if s == nil || !s.running || s.killed {
		if s != nil && s.killed {
			goruntime.Goexit()
		}
		cases := make([]reflect.SelectCase, len(chans))
		for i, c := range chans {
			cases[i] = reflect.SelectCase{Dir: reflect.SelectRecv, Chan: reflect.ValueOf(c)}
		}
		i, _, _ := reflect.Select(cases)
		return i
	}
	return s.sel(chans)
}

//go:norace
func (s *Sim) sel(chans []interface{}) int {
	t := s.cur
	s.step(OpSelect, 0, false)
	t.selChans = t.selChans[:0]
	for _, c := range chans {
		t.selChans = append(t.selChans, reflect.ValueOf(c))
	}
	t.selIndex = -1
	s.selPoll(t)
	for t.selIndex < 0 {
		s.block(t, bkSelect, 0)
	}
	idx := t.selIndex
	t.selIndex = -1
	return idx
}

// selPoll tries to receive from the task's channels in order; on success the
// task becomes runnable with selIndex set.
//
//go:norace
func (s *Sim) selPoll(t *Task) bool {
	if t.selPeekOnly {
		for _, c := range t.selChans {
			if c.IsValid() && !c.IsNil() && (c.Len() > 0 || s.hasPend(c.Pointer()) || chanClosed(c)) {
				if t.state == stBlocked {
					t.state = stRunnable
					t.bk = bkNone
				}
				return true
			}
		}
		return false
	}
	for i, c := range t.selChans {
		if !c.IsValid() || c.IsNil() {
			continue
		}
		if v, ok := s.tryRecvPend(c); ok || v.IsValid() {
			t.selIndex = i
			if t.state == stBlocked {
				t.state = stRunnable
				t.bk = bkNone
			}
			return true
		}
	}
	return false
}

// selReadyPeek: would the select be ready (without consuming)? Only channel
// length / closedness can be observed without receiving, so use Len for
// buffered channels; an unbuffered closed channel is not detected here.
//
//go:norace
func (s *Sim) selReadyPeek(t *Task) bool {
	for _, c := range t.selChans {
		if c.IsValid() && !c.IsNil() && (c.Len() > 0 || s.hasPend(c.Pointer())) {
			return true
		}
	}
	return false
}

// tryRecv: ok is true if a value was received or the channel is closed.
func tryRecv(c reflect.Value) (reflect.Value, bool) {
	v, ok := c.TryRecv()
	if ok {
		return v, true
	}
	// TryRecv returns (zero, false) both for "would block" and for "closed".
	// v.IsValid() distinguishes: closed yields a valid zero Value.
	if v.IsValid() {
		return v, true
	}
	return v, false
}

// Pump asks the next pick to poll Select-blocked tasks again.
//
//go:norace
func (s *Sim) Pump() { s.pollSel = true }

// ---------------------------------------------------------------------------

//go:norace
func (s *Sim) ordinal(addr uintptr) uint32 {
	if addr == 0 {
		return 0
	}
	mask := uintptr(len(s.addrTab) - 1)
	i := uintptr(mix64(uint64(addr))) & mask
	for {
		sl := &s.addrTab[i]
		if sl.addr == addr {
			return sl.ord
		}
		if sl.addr == 0 {
			s.addrN++
			sl.addr = addr
			sl.ord = s.addrN
			if int(s.addrN)*2 > len(s.addrTab) {
				s.growAddrTab()
			}
			return s.addrN
		}
		i = (i + 1) & mask
	}
}

//go:norace
func (s *Sim) growAddrTab() {
	old := s.addrTab
	s.addrTab = make([]addrSlot, len(old)*2)
	mask := uintptr(len(s.addrTab) - 1)
	for _, sl := range old {
		if sl.addr == 0 {
			continue
		}
		i := uintptr(mix64(uint64(sl.addr))) & mask
		for s.addrTab[i].addr != 0 {
			i = (i + 1) & mask
		}
		s.addrTab[i] = sl
	}
}

func mix64(x uint64) uint64 {
	x ^= x >> 30
	x *= 0xbf58476d1ce4e5b9
	x ^= x >> 27
	x *= 0x94d049bb133111eb
	x ^= x >> 31
	return x
}

// Mix64 is exported for the driver.
func Mix64(x uint64) uint64 { return mix64(x) }

// parkSend / parkRecv: baton hand-off, invisible to the race detector.
func parkSend(c chan struct{}) {
	raceDisable()
	c <- struct{}{}
	raceEnable()
}

func parkRecv(c chan struct{}) {
	raceDisable()
	<-c
	raceEnable()
}

// chanClosed: a closed channel is always ready for receiving. reflect offers
// no direct test; a select with a default case tells (nothing is consumed from
// an open empty channel; from a closed one only the zero value comes).
func chanClosed(c reflect.Value) bool {
	if c.Len() > 0 {
		return false
	}
	chosen, _, ok := reflect.Select([]reflect.SelectCase{
		{Dir: reflect.SelectRecv, Chan: c},
		{Dir: reflect.SelectDefault},
	})
	return chosen == 0 && !ok
}

// goid returns the id of the calling goroutine (parsed from the stack header;
// used only to tell a task from a goroutine outside the simulation, e.g. the
// finalizer goroutine, in Send).
func goid() uint64 {
	var buf [40]byte
	n := goruntime.Stack(buf[:], false)
	// "goroutine 123 ["
	var id uint64
	for i := len("goroutine "); i < n; i++ {
		c := buf[i]
		if c < '0' || c > '9' {
			break
		}
		id = id*10 + uint64(c-'0')
	}
	return id
}

//go:norace
func (s *Sim) onTaskGoroutine() bool {
	t := s.cur
	return t != nil && t.gid == goid()
}
