package simrt

// RNG is a small deterministic generator (splitmix64). Every random choice in
// a simulated run comes from an RNG derived from the run seed and a stream tag.
type RNG struct{ s uint64 }

func NewRNG(seed uint64, tag uint64) *RNG {
	return &RNG{s: mix64(seed^0xA5A5A5A5DEADBEEF) ^ mix64(tag*0x9E3779B97F4A7C15+1)}
}

//go:norace
func (r *RNG) Uint64() uint64 {
	r.s += 0x9E3779B97F4A7C15
	return mix64(r.s)
}

//go:norace
func (r *RNG) Intn(n int) int {
	if n <= 1 {
		return 0
	}
	return int(r.Uint64() % uint64(n))
}

//go:norace
func (r *RNG) Int63n(n int64) int64 {
	if n <= 1 {
		return 0
	}
	return int64(r.Uint64() % uint64(n))
}

//go:norace
func (r *RNG) Float64() float64 {
	return float64(r.Uint64()>>11) / float64(1<<53)
}

//go:norace
func (r *RNG) Bool(p float64) bool { return r.Float64() < p }

// StrategyConfig selects the scheduling strategy of a run.
type StrategyConfig struct {
	Kind    string  // "random", "sticky", "pct", "rr", "rrq"
	Stick   float64 // sticky: probability of staying with the running task
	Depth   int     // pct: number of priority change points
	Horizon int     // pct: estimated run length in steps (change points are drawn in [1,Horizon])
	Quantum int     // rr: steps per slice
}

type strategy interface {
	pick(s *Sim, c []*Task, self *Task) *Task
	demote(s *Sim, t *Task)
	rng() *RNG
}

func newStrategy(cfg StrategyConfig, seed uint64) strategy {
	r := NewRNG(seed, 0x5C4ED)
	switch cfg.Kind {
	case "sticky":
		return &stickyStrat{r: r, p: cfg.Stick}
	case "pct":
		h := cfg.Horizon
		if h <= 0 {
			h = 400
		}
		st := &pctStrat{r: r, low: -1}
		for i := 0; i < cfg.Depth; i++ {
			st.change = append(st.change, uint64(1+r.Intn(h)))
		}
		return st
	case "rr":
		q := cfg.Quantum
		if q <= 0 {
			q = 1
		}
		return &rrStrat{r: r, q: q}
	case "rrq":
		// round robin with a quantum of its own per task (drawn once per task): a
		// task with quantum 1 is interrupted after every step by tasks that get
		// whole operations done in between - the adversary of bounded retry loops
		return &rrStrat{r: r, q: 1, perTask: map[int]int{}}
	}
	return &randomStrat{r: r}
}

type randomStrat struct{ r *RNG }

//go:norace
func (st *randomStrat) pick(s *Sim, c []*Task, self *Task) *Task { return c[st.r.Intn(len(c))] }

//go:norace
func (st *randomStrat) demote(s *Sim, t *Task) {}
func (st *randomStrat) rng() *RNG             { return st.r }

type stickyStrat struct {
	r *RNG
	p float64
}

//go:norace
func (st *stickyStrat) pick(s *Sim, c []*Task, self *Task) *Task {
	if self != nil && st.r.Float64() < st.p {
		for _, t := range c {
			if t == self {
				return t
			}
		}
	}
	return c[st.r.Intn(len(c))]
}

//go:norace
func (st *stickyStrat) demote(s *Sim, t *Task) {}
func (st *stickyStrat) rng() *RNG             { return st.r }

// pctStrat: probabilistic concurrency testing. Every task has a random
// priority; the highest-priority candidate runs; at each change point the
// running task drops below everybody else.
type pctStrat struct {
	r      *RNG
	change []uint64
	low    int
}

//go:norace
func (st *pctStrat) pick(s *Sim, c []*Task, self *Task) *Task {
	for _, t := range c {
		if t.prio == 0 {
			t.prio = 1000 + st.r.Intn(1000000)
		}
	}
	if self != nil {
		for _, cp := range st.change {
			if cp == s.Seq {
				st.demote(s, self)
			}
		}
	}
	best := c[0]
	for _, t := range c[1:] {
		if t.prio > best.prio {
			best = t
		}
	}
	return best
}

//go:norace
func (st *pctStrat) demote(s *Sim, t *Task) {
	t.prio = st.low
	st.low--
}
func (st *pctStrat) rng() *RNG { return st.r }

type rrStrat struct {
	r       *RNG
	q       int
	used    int
	last    int
	perTask map[int]int
}

var rrqQuanta = []int{1, 1, 1, 2, 3, 5, 8, 13, 21, 34, 55}

//go:norace
func (st *rrStrat) quantum(t *Task) int {
	if st.perTask == nil {
		return st.q
	}
	q, ok := st.perTask[t.ID]
	if !ok {
		q = rrqQuanta[st.r.Intn(len(rrqQuanta))]
		st.perTask[t.ID] = q
	}
	return q
}

//go:norace
func (st *rrStrat) pick(s *Sim, c []*Task, self *Task) *Task {
	if self != nil && st.used < st.quantum(self) {
		for _, t := range c {
			if t == self {
				st.used++
				return t
			}
		}
	}
	st.used = 1
	// next task id after last, cyclically
	var best *Task
	for _, t := range c {
		if t.ID > st.last && (best == nil || t.ID < best.ID) {
			best = t
		}
	}
	if best == nil {
		best = c[0]
		for _, t := range c[1:] {
			if t.ID < best.ID {
				best = t
			}
		}
	}
	st.last = best.ID
	return best
}

//go:norace
func (st *rrStrat) demote(s *Sim, t *Task) {}
func (st *rrStrat) rng() *RNG             { return st.r }
