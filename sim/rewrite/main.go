// Command rewrite copies the non-test Go sources of the module under test
// into a scratch directory and instruments them for the simulator:
//
//  1. imports of sync, sync/atomic, runtime, time -> verifsim/shim/...
//  2. go statements -> simrt.Go
//  3. receive-only select statements -> switch simrt.Select(...)
//  4. calls of the linknamed runtime_fastrand/memhash/typehash -> verif* hooks
//  5. (optional) const defaultMinMapTableLen -> package variable
//  6. receives, close; 8. sends; 9. general selects; 10. `for range ch` -> simrt seams
//     (see the comments at each rule and DESIGN.md section 10)
//
// It never touches the source tree. Exit status 2 on any trouble.
package main

import (
	"bytes"
	"flag"
	"fmt"
	"go/ast"
	"go/format"
	"go/parser"
	"go/token"
	"io"
	"os"
	"path/filepath"
	"strconv"
	"strings"
)

var (
	src     = flag.String("src", "/repo", "module under test")
	dst     = flag.String("dst", "", "scratch directory (created)")
	overlay = flag.String("overlay", "", "directory holding verifsim/ to copy into dst")
	noKnob  = flag.Bool("noknob", false, "do not lift defaultMinMapTableLen into a variable")
	modPath = "github.com/fufuok/cache"
)

var shimOf = map[string]string{
	"sync":        "/verifsim/shim/sync",
	"sync/atomic": "/verifsim/shim/atomic",
	"runtime":     "/verifsim/shim/runtime",
	"time":        "/verifsim/shim/time",
}

var hookOf = map[string]string{
	"runtime_fastrand": "verifFastrand",
	"runtime_memhash":  "verifMemhash",
	"runtime_typehash": "verifTypehash",
}

type stats struct {
	files, imports, gos, selects, selectsLeft, hookCalls, knob, chanOps int
}

var st stats

func die(f string, a ...interface{}) {
	fmt.Fprintf(os.Stderr, "rewrite: "+f+"\n", a...)
	os.Exit(2)
}

func main() {
	flag.Parse()
	if *dst == "" {
		die("-dst required")
	}
	mod, err := os.ReadFile(filepath.Join(*src, "go.mod"))
	if err != nil {
		die("%v", err)
	}
	for _, l := range strings.Split(string(mod), "\n") {
		if strings.HasPrefix(l, "module ") {
			modPath = strings.TrimSpace(strings.TrimPrefix(l, "module "))
		}
	}
	// package dir -> package name, for dirs that declare hook targets
	hookDirs := map[string]string{}
	knobDirs := map[string]string{}
	err = filepath.Walk(*src, func(p string, info os.FileInfo, err error) error {
		if err != nil {
			return err
		}
		rel, _ := filepath.Rel(*src, p)
		if info.IsDir() {
			b := filepath.Base(p)
			if rel != "." && (strings.HasPrefix(b, ".") || b == "examples" || b == "testdata" || b == "verifsim" || b == "vendor") {
				return filepath.SkipDir
			}
			return nil
		}
		out := filepath.Join(*dst, rel)
		switch {
		case rel == "go.mod" || rel == "go.sum":
			return copyFile(p, out)
		case strings.HasSuffix(rel, "_test.go"):
			return nil
		case strings.HasSuffix(rel, ".go"):
			return rewriteFile(p, out, filepath.Dir(rel), hookDirs, knobDirs)
		case strings.HasSuffix(rel, ".s") || strings.HasSuffix(rel, ".h"):
			return copyFile(p, out)
		}
		return nil
	})
	if err != nil {
		die("%v", err)
	}
	for dir, pkg := range hookDirs {
		var b bytes.Buffer
		fmt.Fprintf(&b, "// Code added by the verification rewriter. DO NOT EDIT.\n\npackage %s\n\nimport (\n\t\"unsafe\"\n\n\t\"%s/verifsim/simrt\"\n)\n\n", pkg, modPath)
		b.WriteString("func verifFastrand() uint32 { return simrt.Fastrand() }\n\n")
		b.WriteString("func verifMemhash(p unsafe.Pointer, h, s uintptr) uintptr { return simrt.Memhash(p, h, s) }\n\n")
		b.WriteString("func verifTypehash(t uintptr, p unsafe.Pointer, h uintptr) uintptr { return simrt.Typehash(t, p, h) }\n")
		if err := os.WriteFile(filepath.Join(*dst, dir, "verif_hooks_gen.go"), b.Bytes(), 0o644); err != nil {
			die("%v", err)
		}
	}
	// knob setters (the bridge calls them)
	xs := filepath.Join(*dst, "internal", "xsync")
	if fi, err := os.Stat(xs); err == nil && fi.IsDir() {
		var b bytes.Buffer
		b.WriteString("// Code added by the verification rewriter. DO NOT EDIT.\n\npackage xsync\n\n")
		if _, ok := knobDirs[filepath.Join("internal", "xsync")+"|defaultMinMapTableLen"]; ok {
			b.WriteString("// VerifSetMinTableLen sets the minimal table length knob (shipped value 32).\nfunc VerifSetMinTableLen(n int) bool { defaultMinMapTableLen = n; return true }\n")
		} else {
			b.WriteString("// VerifSetMinTableLen: the knob could not be lifted in this tree.\nfunc VerifSetMinTableLen(n int) bool { return false }\n")
		}
		if err := os.WriteFile(filepath.Join(xs, "verif_knob_gen.go"), b.Bytes(), 0o644); err != nil {
			die("%v", err)
		}
	}
	{
		rootPkg := ""
		for k, v := range knobDirs {
			if k == ".|DefaultMinCapacity" {
				rootPkg = v
			}
		}
		var b bytes.Buffer
		if rootPkg != "" {
			fmt.Fprintf(&b, "// Code added by the verification rewriter. DO NOT EDIT.\n\npackage %s\n\n// VerifSetMinCapacity sets the MinCapacity floor knob (shipped value 96).\nfunc VerifSetMinCapacity(n int) bool { DefaultMinCapacity = n; return true }\n", rootPkg)
		} else {
			pkg := rootPackageName(*dst)
			fmt.Fprintf(&b, "// Code added by the verification rewriter. DO NOT EDIT.\n\npackage %s\n\n// VerifSetMinCapacity: the knob could not be lifted in this tree.\nfunc VerifSetMinCapacity(n int) bool { return false }\n", pkg)
		}
		if err := os.WriteFile(filepath.Join(*dst, "verif_knob_gen.go"), b.Bytes(), 0o644); err != nil {
			die("%v", err)
		}
	}
	if *overlay != "" {
		if err := copyTree(*overlay, *dst); err != nil {
			die("%v", err)
		}
	}
	fmt.Printf("rewrite: files=%d imports=%d go=%d select=%d select_left=%d hook_calls=%d knob=%d chan_ops=%d\n",
		st.files, st.imports, st.gos, st.selects, st.selectsLeft, st.hookCalls, st.knob, st.chanOps)
}

func hasIdent(e ast.Expr) bool {
	found := false
	ast.Inspect(e, func(n ast.Node) bool {
		if _, ok := n.(*ast.Ident); ok {
			found = true
		}
		return true
	})
	return found
}

func rootPackageName(dir string) string {
	ents, _ := os.ReadDir(dir)
	for _, e := range ents {
		if strings.HasSuffix(e.Name(), ".go") && !strings.HasSuffix(e.Name(), "_gen.go") {
			f, err := parser.ParseFile(token.NewFileSet(), filepath.Join(dir, e.Name()), nil, parser.PackageClauseOnly)
			if err == nil {
				return f.Name.Name
			}
		}
	}
	return "cache"
}

func copyFile(from, to string) error {
	if err := os.MkdirAll(filepath.Dir(to), 0o755); err != nil {
		return err
	}
	in, err := os.Open(from)
	if err != nil {
		return err
	}
	defer in.Close()
	out, err := os.Create(to)
	if err != nil {
		return err
	}
	defer out.Close()
	_, err = io.Copy(out, in)
	return err
}

func copyTree(from, to string) error {
	return filepath.Walk(from, func(p string, info os.FileInfo, err error) error {
		if err != nil {
			return err
		}
		rel, _ := filepath.Rel(from, p)
		if info.IsDir() {
			return os.MkdirAll(filepath.Join(to, rel), 0o755)
		}
		if strings.HasSuffix(rel, ".go") && modPath != "github.com/fufuok/cache" {
			b, err := os.ReadFile(p)
			if err != nil {
				return err
			}
			b = bytes.ReplaceAll(b, []byte("github.com/fufuok/cache/"), []byte(modPath+"/"))
			return os.WriteFile(filepath.Join(to, rel), b, 0o644)
		}
		return copyFile(p, filepath.Join(to, rel))
	})
}

func rewriteFile(in, out, dir string, hookDirs, knobDirs map[string]string) error {
	fset := token.NewFileSet()
	f, err := parser.ParseFile(fset, in, nil, parser.ParseComments)
	if err != nil {
		return err
	}
	st.files++
	needSimrt := false

	// 1. imports
	for _, im := range f.Imports {
		p, _ := strconv.Unquote(im.Path.Value)
		if sh, ok := shimOf[p]; ok {
			im.Path.Value = strconv.Quote(modPath + sh)
			st.imports++
		}
	}

	// 4. hook targets declared here?
	for _, d := range f.Decls {
		if fd, ok := d.(*ast.FuncDecl); ok && fd.Body == nil && fd.Recv == nil {
			if _, ok := hookOf[fd.Name.Name]; ok {
				hookDirs[dir] = f.Name.Name
			}
		}
	}

	// 5. knob
	if !*noKnob {
		lifted := false
		for i, d := range f.Decls {
			gd, ok := d.(*ast.GenDecl)
			if !ok || gd.Tok != token.CONST {
				continue
			}
			for j, sp := range gd.Specs {
				vs := sp.(*ast.ValueSpec)
				if len(vs.Names) == 1 && (vs.Names[0].Name == "defaultMinMapTableLen" || vs.Names[0].Name == "DefaultMinCapacity") && len(vs.Values) == 1 && vs.Type == nil {
					if hasIdent(vs.Values[0]) {
						continue
					}
					name := vs.Names[0].Name
					gd.Specs = append(gd.Specs[:j:j], gd.Specs[j+1:]...)
					nv := &ast.GenDecl{Tok: token.VAR, Specs: []ast.Spec{&ast.ValueSpec{
						Names: []*ast.Ident{ast.NewIdent(name)}, Values: vs.Values}}}
					rest := append([]ast.Decl{nv}, f.Decls[i+1:]...)
					f.Decls = append(f.Decls[:i+1:i+1], rest...)
					knobDirs[dir+"|"+name] = f.Name.Name
					st.knob++
					lifted = true
					break
				}
			}
			if lifted {
				break
			}
		}
	}

	// 2, 3, 4: statements and calls
	var visit func(n ast.Node) bool
	chans := chanNames(filepath.Dir(in))
	rewriteStmts := func(list []ast.Stmt) {
		for i, s := range list {
			switch x := s.(type) {
			case *ast.GoStmt:
				list[i] = rewriteGo(x)
				needSimrt = true
				st.gos++
			case *ast.SendStmt:
				// 8. `ch <- v` -> simrt.Send(ch, v) (a send that is the
				// communication of a select clause is not in a statement list)
				list[i] = &ast.ExprStmt{X: &ast.CallExpr{Fun: sel("simrt", "Send"), Args: []ast.Expr{x.Chan, x.Value}}}
				needSimrt = true
				st.chanOps++
			case *ast.RangeStmt:
				// 10. `for [v :=] range ch {...}` over a channel -> a loop around
				// simrt.Recv2 (the rewriter is untyped: a channel is recognised as
				// `<expr>.C` or a name declared with a channel type in this directory)
				if fs := rewriteRangeChan(x, chans); fs != nil {
					list[i] = fs
					needSimrt = true
					st.chanOps++
				}
			case *ast.SelectStmt:
				if sw := rewriteSelect(x); sw != nil {
					list[i] = sw
					needSimrt = true
					st.selects++
				} else if sw := rewriteSelectX(x); sw != nil {
					list[i] = sw
					needSimrt = true
					st.selects++
				} else {
					st.selectsLeft++
					fmt.Fprintf(os.Stderr, "rewrite: note: %s: select statement left alone (not receive-only)\n", fset.Position(x.Pos()))
				}
			case *ast.LabeledStmt:
				// handle "L: select {...}" / "L: go f()"
				inner := []ast.Stmt{x.Stmt}
				switch x.Stmt.(type) {
				case *ast.GoStmt, *ast.SelectStmt:
					tmp := inner
					_ = tmp
				}
			}
		}
	}
	visit = func(n ast.Node) bool {
		switch x := n.(type) {
		case *ast.BlockStmt:
			rewriteStmts(x.List)
		case *ast.CaseClause:
			rewriteStmts(x.Body)
		case *ast.CommClause:
			rewriteStmts(x.Body)
		case *ast.LabeledStmt:
			tmp := []ast.Stmt{x.Stmt}
			rewriteStmts(tmp)
			x.Stmt = tmp[0]
		case *ast.CallExpr:
			if id, ok := x.Fun.(*ast.Ident); ok {
				if h, ok := hookOf[id.Name]; ok {
					id.Name = h
					st.hookCalls++
				}
				if id.Name == "close" && len(x.Args) == 1 && id.Obj == nil {
					x.Fun = sel("simrt", "Close")
					needSimrt = true
					st.chanOps++
				}
			}
		}
		return true
	}
	ast.Inspect(f, visit)
	// 6. plain receive expressions (not the comm clauses of a select that was left alone)
	if rewriteRecvs(f) {
		needSimrt = true
	}

	if needSimrt {
		addImport(f, modPath+"/verifsim/simrt")
	}
	var buf bytes.Buffer
	if err := format.Node(&buf, fset, f); err != nil {
		return fmt.Errorf("%s: %v", in, err)
	}
	if err := os.MkdirAll(filepath.Dir(out), 0o755); err != nil {
		return err
	}
	return os.WriteFile(out, buf.Bytes(), 0o644)
}

func addImport(f *ast.File, path string) {
	for _, im := range f.Imports {
		if p, _ := strconv.Unquote(im.Path.Value); p == path {
			return
		}
	}
	spec := &ast.ImportSpec{Path: &ast.BasicLit{Kind: token.STRING, Value: strconv.Quote(path)}}
	for _, d := range f.Decls {
		if gd, ok := d.(*ast.GenDecl); ok && gd.Tok == token.IMPORT {
			gd.Specs = append(gd.Specs, spec)
			if !gd.Lparen.IsValid() {
				gd.Lparen = gd.Pos()
				gd.Rparen = gd.End()
			}
			f.Imports = append(f.Imports, spec)
			return
		}
	}
	gd := &ast.GenDecl{Tok: token.IMPORT, Specs: []ast.Spec{spec}}
	f.Decls = append([]ast.Decl{gd}, f.Decls...)
	f.Imports = append(f.Imports, spec)
}

func sel(pkg, name string) ast.Expr {
	return &ast.SelectorExpr{X: ast.NewIdent(pkg), Sel: ast.NewIdent(name)}
}

// go f(a, b)  ->  { v0, v1 := a, b; simrt.Go(func() { f(v0, v1) }) }
// go func(){...}()  ->  simrt.Go(func(){...})
func rewriteGo(g *ast.GoStmt) ast.Stmt {
	call := g.Call
	if fl, ok := call.Fun.(*ast.FuncLit); ok && len(call.Args) == 0 && (fl.Type.Results == nil || len(fl.Type.Results.List) == 0) {
		return &ast.ExprStmt{X: &ast.CallExpr{Fun: sel("simrt", "Go"), Args: []ast.Expr{fl}}}
	}
	var lhs []ast.Expr
	var rhs []ast.Expr
	newArgs := make([]ast.Expr, len(call.Args))
	for i, a := range call.Args {
		id := ast.NewIdent(fmt.Sprintf("verifGoArg%d", i))
		lhs = append(lhs, id)
		rhs = append(rhs, a)
		newArgs[i] = id
	}
	fnID := ast.NewIdent("verifGoFn")
	lhs = append(lhs, fnID)
	rhs = append(rhs, call.Fun)
	inner := &ast.CallExpr{Fun: fnID, Args: newArgs, Ellipsis: call.Ellipsis}
	body := &ast.BlockStmt{List: []ast.Stmt{&ast.ExprStmt{X: inner}}}
	lit := &ast.FuncLit{Type: &ast.FuncType{Params: &ast.FieldList{}}, Body: body}
	return &ast.BlockStmt{List: []ast.Stmt{
		&ast.AssignStmt{Lhs: lhs, Tok: token.DEFINE, Rhs: rhs},
		&ast.ExprStmt{X: &ast.CallExpr{Fun: sel("simrt", "Go"), Args: []ast.Expr{lit}}},
	}}
}

// select { case <-a: A; case <-b: B }  ->  switch simrt.Select(a, b) { case 0: A; case 1: B }
func rewriteSelect(s *ast.SelectStmt) ast.Stmt {
	var chans []ast.Expr
	var clauses []ast.Stmt
	for i, c := range s.Body.List {
		cc := c.(*ast.CommClause)
		es, ok := cc.Comm.(*ast.ExprStmt)
		if !ok {
			return nil
		}
		ue, ok := es.X.(*ast.UnaryExpr)
		if !ok || ue.Op != token.ARROW {
			return nil
		}
		chans = append(chans, ue.X)
		clauses = append(clauses, &ast.CaseClause{
			List: []ast.Expr{&ast.BasicLit{Kind: token.INT, Value: strconv.Itoa(i)}},
			Body: cc.Body,
		})
	}
	if len(chans) == 0 {
		return nil
	}
	return &ast.SwitchStmt{
		Tag:  &ast.CallExpr{Fun: sel("simrt", "Select"), Args: chans},
		Body: &ast.BlockStmt{List: clauses},
	}
}

// rewriteSelectX: the general form (rule 9). Clauses may receive with or
// without assignment, send, or be the default:
//
//	switch verifI, verifV, verifOK := simrt.SelectX(hasDefault, cases...); simrt.Idx(verifI, verifV, verifOK) {
//	case 0: v, ok := simrt.As(ch, verifV), verifOK; body
//	case 1: body            // a send case
//	case -1: default body
//	}
//
// The channel expression of an assigning receive is evaluated twice (once for
// the case, once for the type of the value), so only identifiers and field
// selections are accepted there.
func rewriteSelectX(s *ast.SelectStmt) ast.Stmt {
	simple := func(e ast.Expr) bool {
		for {
			switch x := e.(type) {
			case *ast.Ident:
				return true
			case *ast.SelectorExpr:
				e = x.X
			case *ast.ParenExpr:
				e = x.X
			default:
				return false
			}
		}
	}
	recvOf := func(e ast.Expr) ast.Expr {
		for {
			if p, ok := e.(*ast.ParenExpr); ok {
				e = p.X
				continue
			}
			break
		}
		if ue, ok := e.(*ast.UnaryExpr); ok && ue.Op == token.ARROW {
			return ue.X
		}
		return nil
	}
	var cases []ast.Expr
	var clauses []ast.Stmt
	hasDefault := "false"
	idx := 0
	vI, vV, vOK := ast.NewIdent("verifI"), ast.NewIdent("verifV"), ast.NewIdent("verifOK")
	for _, c := range s.Body.List {
		cc := c.(*ast.CommClause)
		if cc.Comm == nil {
			hasDefault = "true"
			clauses = append(clauses, &ast.CaseClause{List: []ast.Expr{&ast.UnaryExpr{Op: token.SUB, X: &ast.BasicLit{Kind: token.INT, Value: "1"}}}, Body: cc.Body})
			continue
		}
		body := cc.Body
		switch cm := cc.Comm.(type) {
		case *ast.ExprStmt:
			ch := recvOf(cm.X)
			if ch == nil {
				return nil
			}
			cases = append(cases, &ast.CallExpr{Fun: sel("simrt", "RecvCase"), Args: []ast.Expr{ch}})
		case *ast.AssignStmt:
			if len(cm.Rhs) != 1 || len(cm.Lhs) < 1 || len(cm.Lhs) > 2 {
				return nil
			}
			ch := recvOf(cm.Rhs[0])
			if ch == nil || !simple(ch) {
				return nil
			}
			cases = append(cases, &ast.CallExpr{Fun: sel("simrt", "RecvCase"), Args: []ast.Expr{ch}})
			rhs := []ast.Expr{&ast.CallExpr{Fun: sel("simrt", "As"), Args: []ast.Expr{ch, vV}}}
			if len(cm.Lhs) == 2 {
				rhs = append(rhs, vOK)
			}
			asg := &ast.AssignStmt{Lhs: cm.Lhs, Tok: cm.Tok, Rhs: rhs}
			body = append([]ast.Stmt{asg}, body...)
			if cm.Tok == token.DEFINE {
				// the variables may be unused in the body, which is legal in a select clause
				for _, l := range cm.Lhs {
					if id, ok := l.(*ast.Ident); ok && id.Name != "_" {
						body = append(body[:1:1], append([]ast.Stmt{&ast.AssignStmt{Lhs: []ast.Expr{ast.NewIdent("_")}, Tok: token.ASSIGN, Rhs: []ast.Expr{ast.NewIdent(id.Name)}}}, body[1:]...)...)
					}
				}
			}
		case *ast.SendStmt:
			cases = append(cases, &ast.CallExpr{Fun: sel("simrt", "SendCase"), Args: []ast.Expr{cm.Chan, cm.Value}})
		default:
			return nil
		}
		clauses = append(clauses, &ast.CaseClause{List: []ast.Expr{&ast.BasicLit{Kind: token.INT, Value: strconv.Itoa(idx)}}, Body: body})
		idx++
	}
	if len(cases) == 0 {
		return nil
	}
	args := append([]ast.Expr{ast.NewIdent(hasDefault)}, cases...)
	return &ast.SwitchStmt{
		Init: &ast.AssignStmt{Lhs: []ast.Expr{vI, vV, vOK}, Tok: token.DEFINE, Rhs: []ast.Expr{&ast.CallExpr{Fun: sel("simrt", "SelectX"), Args: args}}},
		Tag:  &ast.CallExpr{Fun: sel("simrt", "Idx"), Args: []ast.Expr{vI, vV, vOK}},
		Body: &ast.BlockStmt{List: clauses},
	}
}

// rewriteRecvs: `<-ch` -> simrt.Recv(ch); `v, ok := <-ch` / `v, ok = <-ch` -> simrt.Recv2(ch).
// Receives that are the communication of a select clause are left alone.
func rewriteRecvs(f *ast.File) bool {
	changed := false
	skip := map[ast.Node]bool{}
	ast.Inspect(f, func(n ast.Node) bool {
		if cc, ok := n.(*ast.CommClause); ok && cc.Comm != nil {
			switch c := cc.Comm.(type) {
			case *ast.ExprStmt:
				skip[c.X] = true
			case *ast.AssignStmt:
				for _, r := range c.Rhs {
					skip[r] = true
				}
			case *ast.SendStmt:
			}
		}
		return true
	})
	repl := func(e ast.Expr, two bool) ast.Expr {
		ue, ok := e.(*ast.UnaryExpr)
		if !ok || ue.Op != token.ARROW || skip[e] {
			return e
		}
		changed = true
		st.chanOps++
		name := "Recv"
		if two {
			name = "Recv2"
		}
		return &ast.CallExpr{Fun: sel("simrt", name), Args: []ast.Expr{ue.X}}
	}
	ast.Inspect(f, func(n ast.Node) bool {
		switch x := n.(type) {
		case *ast.ExprStmt:
			x.X = repl(x.X, false)
		case *ast.AssignStmt:
			if len(x.Lhs) == 2 && len(x.Rhs) == 1 {
				x.Rhs[0] = repl(x.Rhs[0], true)
			} else {
				for i := range x.Rhs {
					x.Rhs[i] = repl(x.Rhs[i], false)
				}
			}
		case *ast.ValueSpec:
			if len(x.Names) == 2 && len(x.Values) == 1 {
				x.Values[0] = repl(x.Values[0], true)
			} else {
				for i := range x.Values {
					x.Values[i] = repl(x.Values[i], false)
				}
			}
		case *ast.ReturnStmt:
			for i := range x.Results {
				x.Results[i] = repl(x.Results[i], false)
			}
		case *ast.CallExpr:
			for i := range x.Args {
				x.Args[i] = repl(x.Args[i], false)
			}
		case *ast.BinaryExpr:
			x.X = repl(x.X, false)
			x.Y = repl(x.Y, false)
		case *ast.IfStmt:
			x.Cond = repl(x.Cond, false)
		case *ast.ParenExpr:
			x.X = repl(x.X, false)
		}
		return true
	})
	return changed
}

// chanNames: identifiers declared with a channel type (struct fields, parameters,
// `x := make(chan ...)`, `var x chan ...`) in the non-test files of dir.
var chanNamesCache = map[string]map[string]bool{}

func chanNames(dir string) map[string]bool {
	if m, ok := chanNamesCache[dir]; ok {
		return m
	}
	m := map[string]bool{}
	chanNamesCache[dir] = m
	ents, err := os.ReadDir(dir)
	if err != nil {
		return m
	}
	isChan := func(e ast.Expr) bool {
		for {
			if p, ok := e.(*ast.ParenExpr); ok {
				e = p.X
				continue
			}
			break
		}
		_, ok := e.(*ast.ChanType)
		return ok
	}
	for _, e := range ents {
		n := e.Name()
		if e.IsDir() || !strings.HasSuffix(n, ".go") || strings.HasSuffix(n, "_test.go") {
			continue
		}
		f, err := parser.ParseFile(token.NewFileSet(), filepath.Join(dir, n), nil, 0)
		if err != nil {
			continue
		}
		ast.Inspect(f, func(nd ast.Node) bool {
			switch x := nd.(type) {
			case *ast.Field:
				if isChan(x.Type) {
					for _, id := range x.Names {
						m[id.Name] = true
					}
				}
			case *ast.ValueSpec:
				if x.Type != nil && isChan(x.Type) {
					for _, id := range x.Names {
						m[id.Name] = true
					}
				}
				for i, v := range x.Values {
					if ce, ok := v.(*ast.CallExpr); ok && i < len(x.Names) {
						if id, ok := ce.Fun.(*ast.Ident); ok && id.Name == "make" && len(ce.Args) > 0 && isChan(ce.Args[0]) {
							m[x.Names[i].Name] = true
						}
					}
				}
			case *ast.AssignStmt:
				for i, v := range x.Rhs {
					if ce, ok := v.(*ast.CallExpr); ok && i < len(x.Lhs) {
						if id, ok := ce.Fun.(*ast.Ident); ok && id.Name == "make" && len(ce.Args) > 0 && isChan(ce.Args[0]) {
							switch l := x.Lhs[i].(type) {
							case *ast.Ident:
								m[l.Name] = true
							case *ast.SelectorExpr:
								m[l.Sel.Name] = true
							}
						}
					}
				}
			}
			return true
		})
	}
	return m
}

// rewriteRangeChan: nil when the statement is not (recognisably) a range over a channel.
func rewriteRangeChan(r *ast.RangeStmt, chans map[string]bool) ast.Stmt {
	if r.Value != nil {
		return nil
	}
	pure := func(e ast.Expr) bool {
		for {
			switch x := e.(type) {
			case *ast.Ident:
				return true
			case *ast.SelectorExpr:
				e = x.X
			case *ast.ParenExpr:
				e = x.X
			default:
				return false
			}
		}
	}
	if !pure(r.X) {
		return nil
	}
	name := ""
	switch x := r.X.(type) {
	case *ast.Ident:
		name = x.Name
	case *ast.SelectorExpr:
		name = x.Sel.Name
	default:
		return nil
	}
	if !(chans[name] || (name == "C" && r.X != nil)) {
		return nil
	}
	if _, isSel := r.X.(*ast.SelectorExpr); name == "C" && !isSel && !chans[name] {
		return nil
	}
	var lhs0 ast.Expr = ast.NewIdent("_")
	if r.Key != nil {
		if r.Tok != token.DEFINE {
			return nil
		}
		lhs0 = r.Key
	}
	okId := "verifRangeOk__"
	recv := &ast.AssignStmt{
		Lhs: []ast.Expr{lhs0, ast.NewIdent(okId)},
		Tok: token.DEFINE,
		Rhs: []ast.Expr{&ast.CallExpr{Fun: sel("simrt", "Recv2"), Args: []ast.Expr{r.X}}},
	}
	brk := &ast.IfStmt{
		Cond: &ast.UnaryExpr{Op: token.NOT, X: ast.NewIdent(okId)},
		Body: &ast.BlockStmt{List: []ast.Stmt{&ast.BranchStmt{Tok: token.BREAK}}},
	}
	body := append([]ast.Stmt{recv, brk}, r.Body.List...)
	return &ast.ForStmt{Body: &ast.BlockStmt{List: body}}
}
