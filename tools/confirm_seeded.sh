#!/bin/bash
# confirm_seeded.sh <dir with patch.diff + demo_test.go> : verify in a scratch worktree that
#  clean tree: demo passes; patched tree: compiles, existing suite passes, demo fails.
export GOFLAGS=-mod=mod GOPROXY=off GOSUMDB=off GOTOOLCHAIN=local
D="$1"
W=$(mktemp -d /tmp/confwt-XXXXXX)
git -C /repo worktree add -q --detach "$W" >/dev/null 2>&1 || exit 2
trap 'git -C /repo worktree remove --force "$W" >/dev/null 2>&1; rm -rf "$W"' EXIT
cd "$W"
demo=$(ls "$D"/*_test.go 2>/dev/null | head -1)
[ -z "$demo" ] && { echo "no demo test"; exit 2; }
cp "$D"/*_test.go "$W"/ 2>/dev/null
names=$(grep -ho '^func Test[A-Za-z0-9_]*' "$D"/*_test.go | sed 's/func //' | paste -sd'|')
timeout 600 go test ${CONFIRM_RACE:+-race} -vet=off -count=1 -run "^($names)\$" . >/tmp/conf-clean-$$.log 2>&1; clean=$?
git apply "$D/patch.diff" || { echo "patch does not apply"; exit 2; }
go build ./... >/dev/null 2>&1; build=$?
timeout 600 go test ${CONFIRM_RACE:+-race} -vet=off -count=1 -run "^($names)\$" . >/tmp/conf-pat-$$.log 2>&1; pat=$?
rm -f "$W"/demo*_test.go
for f in "$D"/*_test.go; do rm -f "$W/$(basename $f)"; done
timeout 600 go test -vet=off -count=1 ./... >/tmp/conf-suite-$$.log 2>&1; suite=$?; grep -E "^(--- FAIL|FAIL|panic)" /tmp/conf-suite-$$.log | head -5
echo "clean_demo_exit=$clean build_exit=$build patched_demo_exit=$pat patched_suite_exit=$suite"
rm -f /tmp/conf-*-$$.log
[ $clean = 0 ] && [ $build = 0 ] && [ $pat != 0 ] && [ $suite = 0 ]
