#!/bin/bash
# determinism.sh [props...] : the determinism self-test of DESIGN section 6.3.
# For each property: N run seeds executed in 12 fresh processes (GOMAXPROCS 1,2,4,16 x 3);
# the (index, trace hash, steps, verdict) files must be identical.
export GOFLAGS=-mod=mod GOPROXY=off GOSUMDB=off GOTOOLCHAIN=local
ROOT="$(cd "$(dirname "$0")/.." && pwd)"; export VERIF_ROOT="$ROOT"
N=${N:-3000}
S=$(mktemp -d /tmp/verif-det-XXXXXX); trap 'rm -rf "$S"' EXIT
"$ROOT/sim/build.sh" "$S" >/dev/null || exit 2
props=${@:-C01 C02 C03 C04 C05 C06 C07 C08 C09 C10 C11 C12 C13 C15 C16}
rc=0
for p in $props; do
  for g in 1 2 4 16; do for r in a b c; do GOMAXPROCS=$g "$S/simdrv" -prop $p -runs $N -detdump "$S/det-$p-$g$r.txt" & done; done; wait
  n=$(md5sum "$S"/det-$p-*.txt | awk '{print $1}' | sort -u | wc -l)
  lines=$(wc -l < "$S/det-$p-1a.txt")
  if [ "$n" = 1 ]; then echo "$p: 12 processes x $lines replayable runs identical"; else echo "$p: DIVERGENCE ($n distinct files)"; rc=1; fi
done
exit $rc
