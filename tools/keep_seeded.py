#!/usr/bin/env python3
# keep_seeded.py <src dir> <seeded id> <property> "<needs>" "<caught by: Cxx rule ...>" ["<missed by>"]
import sys, os, shutil, json, subprocess, glob
src, sid, prop, needs, caught = sys.argv[1:6]
missed = sys.argv[6] if len(sys.argv) > 6 else ""
dst = '/verif/seeded/' + sid
os.makedirs(dst, exist_ok=True)
shutil.copy(src + '/patch.diff', dst + '/patch.diff')
for f in glob.glob(src + '/*_test.go') + glob.glob(src + '/README.md') + glob.glob(src + '/*.go'):
    shutil.copy(f, dst + '/' + os.path.basename(f).replace('_test.go', '_test.go.txt') if f.endswith('_test.go') else dst + '/' + os.path.basename(f))
conf = subprocess.run(['/verif/tools/confirm_seeded.sh', src], capture_output=True, text=True)
meta = {
    "id": sid, "breaks_property": prop, "needs_to_manifest": needs,
    "confirmation": {"command": "tools/confirm_seeded.sh (scratch worktree of /repo HEAD: demo on clean tree, git apply, go build, demo, unedited suite)", "result": conf.stdout.strip(), "ok": conf.returncode == 0},
    "checks_run": "tools/trymutant.sh patch.diff <props> (quick tier, scratch worktree, VERIF_SEED=1)",
    "caught_by": caught, "missed_by": missed,
    "demo": "demo_test.go.txt (rename to demo_test.go in the repo root; package cache)",
}
json.dump(meta, open(dst + '/meta.json', 'w'), indent=1)
print(sid, meta["confirmation"]["result"], conf.returncode)
