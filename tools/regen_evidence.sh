#!/bin/bash
# regen_evidence.sh [tier] : run every claimed check on /repo as it is and validate MANIFEST + evidence against the schemas.
cd "$(dirname "$0")/.."
TIER=${1:-quick}
rc=0
for p in C01 C02 C03 C04 C05 C06 C07 C08 C09 C10 C11 C12 C13 C14 C15 C16; do
  out=$(./check $p $TIER 2>&1); e=$?
  echo "$p exit=$e $(echo "$out" | grep -E "^$p $TIER" | cut -c1-150)"
  [ $e = 0 ] || { rc=1; echo "$out" | tail -5; }
done
python3-vt - <<'PY' || rc=1
import json, jsonschema, glob
jsonschema.validate(json.load(open('/verif/MANIFEST.json')), json.load(open('/root/.vp/MANIFEST.schema.json')))
es = json.load(open('/root/.vp/EVIDENCE.schema.json'))
for f in sorted(glob.glob('/verif/evidence/*.json')):
    jsonschema.validate(json.load(open(f)), es)
print("MANIFEST and", len(glob.glob('/verif/evidence/*.json')), "evidence files validate")
PY
exit $rc
