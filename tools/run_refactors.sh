#!/bin/bash
# run_refactors.sh [id...] : run all 16 quick checks against each behaviour-preserving refactoring kept
# under /verif/refactors (scratch worktrees). Every line must be empty after the id: any non-zero exit is a
# false alarm (exit 1) or a gap of the instrumentation (exit 2).
cd "$(dirname "$0")/.."
ids=${@:-$(ls refactors)}
for id in $ids; do
  echo "== $id $(timeout 7200 tools/trymutant.sh $PWD/refactors/$id/patch.diff C01 C02 C03 C04 C05 C06 C07 C08 C09 C10 C11 C12 C13 C14 C15 C16 | grep -v 'exit=0' | tr '\n' ';' | cut -c1-500)"
done
