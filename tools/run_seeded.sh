#!/bin/bash
# run_seeded.sh [id-prefix...] : run the owning property's quick check against every kept seeded change
# (scratch worktrees; /repo and /verif/evidence untouched). Prints one line per change.
cd "$(dirname "$0")/.."
J=${J:-4}
ids=$(ls seeded)
[ $# -gt 0 ] && ids=$(for p in "$@"; do ls seeded | grep "^$p"; done)
run_one(){
  id=$1
  prop=$(python3 -c "import json;print(json.load(open('seeded/$id/meta.json'))['breaks_property'])")
  extra=$(python3 -c "import json;m=json.load(open('seeded/$id/meta.json'));print(m.get('check_with',''))")
  [ -n "$extra" ] && prop=$extra
  nc=$(python3 -c "import json;m=json.load(open('seeded/$id/meta.json'));print('(recorded as NOT CAUGHT: see DESIGN 12) ' if m.get('not_caught') else '')")
  echo "$id: $nc$(timeout 3000 tools/trymutant.sh $PWD/seeded/$id/patch.diff $prop | tr '\n' ' ' | cut -c1-200)"
}
export -f run_one
echo "$ids" | xargs -P $J -I{} bash -c 'run_one {}'
