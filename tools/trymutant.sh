#!/bin/bash
# trymutant.sh <patch.diff> <prop>...  : run the quick checks against a scratch worktree of /repo with the patch applied.
# Nothing in /repo or /verif/evidence is touched.
P="$1"; shift
ROOT="$(cd "$(dirname "$0")/.." && pwd)"
W=$(mktemp -d /tmp/mutwt-XXXXXX)
git -C /repo worktree add -q --detach "$W" >/dev/null 2>&1 || exit 2
trap 'git -C /repo worktree remove --force "$W" >/dev/null 2>&1; rm -rf "$W" "$O"' EXIT
O=$(mktemp -d /tmp/mutout-XXXXXX)
git -C "$W" apply "$P" || { echo "patch does not apply"; exit 2; }
for id in "$@"; do
  VERIF_REPO="$W" VERIF_OUT="$O" "$ROOT/check" "$id" quick >"$O/$id.log" 2>&1; rc=$?
  echo "$id exit=$rc $(grep -m1 'rule=' "$O/$id.log" | cut -c1-160)"
done
