#!/bin/bash
# verify_findings.sh : every kept finding replay must (a) reproduce its violation on the tree just before
# the corresponding fix: commit and (b) pass on /repo as it is now.
cd "$(dirname "$0")/.."
declare -A FIX=( [F1]="GetAndDelete does not return" [F2]="DeleteExpired removes only" [F3]="Clear no longer returns" [F4]="Compute that deletes an absent" [F5]="default hasher hashes interface" )
rc=0
for f in findings/*.json; do
  tag=$(basename $f | cut -d- -f1)
  c=$(git -C /repo log --format='%h %s' | grep "${FIX[$tag]}" | awk '{print $1}')
  W=$(mktemp -d /tmp/findwt-XXXXXX); git -C /repo worktree add -q --detach "$W" "$c^" >/dev/null 2>&1
  before=$(VERIF_REPO="$W" ./check replay "$f" 2>&1 | grep -c '^VIOLATION')
  git -C /repo worktree remove --force "$W" >/dev/null 2>&1; rm -rf "$W"
  after=$(./check replay "$f" 2>&1 | grep -c '^VIOLATION')
  echo "$(basename $f): before fix $c: violations=$before; current tree: violations=$after"
  [ "$before" -ge 1 ] && [ "$after" = 0 ] || rc=1
done
exit $rc
